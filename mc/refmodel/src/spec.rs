//! decaf377 specification algorithms in their UNOPTIMISED form, ported from
//! `ristretto.sage` (`Decaf_1_1_Point.encodeSpec`, `decodeSpec`, `elligatorSpec`,
//! `isqrt_i`, class `Decaf377Point`). The crate under test implements the optimised variants.
use crate::curve::{Curve, Pt};
use crate::fld::{big, int_le, to32, u, Fld};
use num_bigint::BigUint;
use num_traits::{One, Zero};

pub const Q_DEC: &str = "8444461749428370424248824938781546531375899335154063827935233455917409239041";
pub const R_DEC: &str = "2111115437357092606062206234695386632838870926408408195193685246394721360383";
pub const P_HEX: &str = "0x1ae3a4617c510eac63b05c06ca1493b1a22d9f300f5138f1ef3622fba094800170b5d44300000008508c00000000001";
/// `qnr` of class Decaf377Point in ristretto.sage
pub const ZETA_DEC: &str = "2841681278031794617739547238867782961338435681360110683443920362658525667816";

#[derive(Clone, Copy, Debug, PartialEq, Eq, Hash, PartialOrd, Ord)]
pub enum Reject {
    Length,
    NonCanonical,
    Negative,
    NonSquare,
}

#[derive(Clone, Debug)]
pub struct Decaf {
    pub c: Curve,
    pub zeta: BigUint,
    /// group order r
    pub r: BigUint,
    pub fr: Fld,
}

impl Decaf {
    pub fn new() -> Self {
        let f = Fld::new(big(Q_DEC));
        let a = f.neg(&BigUint::one());
        let d = u(3021);
        let r = big(R_DEC);
        Decaf { c: Curve { f, a, d }, zeta: big(ZETA_DEC), fr: Fld::new(r.clone()), r }
    }
    pub fn f(&self) -> &Fld {
        &self.c.f
    }

    /// sage `isqrt_i(x, zeta)`: (False,0) for 0; (True, 1/sqrt(x)); (False, 1/sqrt(zeta*x))
    pub fn isqrt_i(&self, x: &BigUint) -> (bool, BigUint) {
        let f = self.f();
        if (x % &f.p).is_zero() {
            return (false, BigUint::zero());
        }
        if f.is_square(x) {
            (true, f.inv(&f.sqrt(x).unwrap()).unwrap())
        } else {
            (false, f.inv(&f.sqrt(&f.mul(x, &self.zeta)).unwrap()).unwrap())
        }
    }

    /// `Decaf_1_1_Point.encodeSpec` for cofactor 4, isoMagic = 1. Returns the field element s.
    /// Err(()) if the point is not in the image (1 - a x^2 non-square, i.e. P not in 2E).
    pub fn encode_spec(&self, p: &Pt) -> Result<BigUint, ()> {
        let f = self.f();
        let (a, x, y) = (&self.c.a, &p.x, &p.y);
        if x.is_zero() || y.is_zero() {
            return Ok(BigUint::zero());
        }
        let one = BigUint::one();
        let sr = f.xsqrt(&f.sub(&one, &f.mul(a, &f.sqr(x)))).ok_or(())?;
        let altx = f.div(&f.mul(x, y), &sr);
        let s = if f.is_neg(&altx) {
            f.div(&f.add(&one, &sr), x)
        } else {
            f.div(&f.sub(&one, &sr), x)
        };
        Ok(if f.is_neg(&s) { f.neg(&s) } else { s })
    }
    pub fn encode_spec_bytes(&self, p: &Pt) -> Result<[u8; 32], ()> {
        self.encode_spec(p).map(|s| to32(&s))
    }

    /// `Decaf_1_1_Point.decodeSpec`
    pub fn decode_spec(&self, bytes: &[u8]) -> Result<Pt, Reject> {
        let f = self.f();
        if bytes.len() != 32 {
            return Err(Reject::Length);
        }
        let s = int_le(bytes);
        if s >= f.p {
            return Err(Reject::NonCanonical);
        }
        if f.is_neg(&s) {
            return Err(Reject::Negative);
        }
        self.decode_spec_fe(&s)
    }
    /// decodeSpec on a field element already known canonical and non-negative
    pub fn decode_spec_fe(&self, s: &BigUint) -> Result<Pt, Reject> {
        self.decode_spec_ex(s).map(|(p, _)| p)
    }
    /// as `decode_spec_fe`, also reporting whether the sign of t was flipped (control class)
    pub fn decode_spec_ex(&self, s: &BigUint) -> Result<(Pt, bool), Reject> {
        let f = self.f();
        let (a, d) = (&self.c.a, &self.c.d);
        if s.is_zero() {
            return Ok((self.c.identity(), false));
        }
        let one = BigUint::one();
        let ss = f.sqr(s);
        // t^2 = a^2 s^4 + 2(a-2d) s^2 + 1
        let t2 = f.add(
            &f.add(&f.mul(&f.sqr(a), &f.sqr(&ss)), &f.mul(&f.mul(&u(2), &f.sub(a, &f.mul(&u(2), d))), &ss)),
            &one,
        );
        let mut t = f.xsqrt(&t2).ok_or(Reject::NonSquare)?;
        assert!(!t.is_zero(), "spec undefined: t = 0 (design-time analysis says unreachable)");
        let altx = f.div(&f.mul(&u(2), s), &t);
        let flipped = f.is_neg(&altx);
        if flipped {
            t = f.neg(&t);
        }
        let x = f.div(&f.mul(&u(2), s), &f.add(&one, &f.mul(a, &ss)));
        let y = f.div(&f.sub(&one, &f.mul(a, &ss)), &t);
        let p = Pt { x, y };
        assert!(self.c.on_curve(&p), "spec produced an off-curve point");
        Ok((p, flipped))
    }

    /// `Decaf_1_1_Point.elligatorSpec` on a field element r0
    pub fn elligator_spec(&self, r0: &BigUint) -> Pt {
        let f = self.f();
        let (a, d) = (&self.c.a, &self.c.d);
        let one = BigUint::one();
        let r = f.mul(&self.zeta, &f.sqr(r0));
        let dma = f.sub(d, a);
        let den = f.mul(&f.sub(&f.mul(d, &r), &dma), &f.sub(&f.mul(&dma, &r), d));
        if den.is_zero() {
            return self.c.identity();
        }
        let a2d = f.sub(a, &f.mul(&u(2), d));
        let n1 = f.div(&f.mul(&f.add(&r, &one), &a2d), &den);
        let n2 = f.mul(&r, &n1);
        let rm1 = f.sub(&r, &one);
        let a2d2 = f.sqr(&a2d);
        let (s, t);
        if f.is_square(&n1) {
            s = f.xsqrt(&n1).unwrap();
            t = f.sub(&f.neg(&f.div(&f.mul(&rm1, &a2d2), &den)), &one);
        } else {
            s = f.neg(&f.xsqrt(&n2).expect("n2 is a square when n1 is not"));
            t = f.sub(&f.div(&f.mul(&f.mul(&r, &rm1), &a2d2), &den), &one);
        }
        self.from_jacobi_quartic(&s, &t)
    }
    pub fn from_jacobi_quartic(&self, s: &BigUint, t: &BigUint) -> Pt {
        let f = self.f();
        let a = &self.c.a;
        if s.is_zero() {
            return self.c.identity();
        }
        let one = BigUint::one();
        let ss = f.sqr(s);
        let x = f.div(&f.mul(&u(2), s), &f.add(&one, &f.mul(a, &ss)));
        let y = f.div(&f.sub(&one, &f.mul(a, &ss)), t);
        let p = Pt { x, y };
        assert!(self.c.on_curve(&p), "elligatorSpec produced an off-curve point");
        p
    }
    /// control class of r0 for the optimised map: (r0 == 0, n1 square, s sign flipped)
    pub fn elligator_class(&self, r0: &BigUint) -> &'static str {
        let f = self.f();
        if (r0 % &f.p).is_zero() {
            return "r0=0";
        }
        let (a, d) = (&self.c.a, &self.c.d);
        let r = f.mul(&self.zeta, &f.sqr(r0));
        let dma = f.sub(d, a);
        let den = f.mul(&f.sub(&f.mul(d, &r), &dma), &f.sub(&f.mul(&dma, &r), d));
        if den.is_zero() {
            return "den=0";
        }
        let a2d = f.sub(a, &f.mul(&u(2), d));
        let num = f.mul(&f.add(&r, &BigUint::one()), &a2d);
        if num.is_zero() {
            return "num=0";
        }
        if f.is_square(&f.mul(&num, &den)) {
            "square"
        } else {
            "nonsquare"
        }
    }

    pub fn generator(&self) -> Pt {
        self.decode_spec_fe(&u(8)).expect("8 decodes")
    }
    /// P in 2E  <=>  on curve and r*P in {(0,1),(0,-1)}
    pub fn valid(&self, p: &Pt) -> bool {
        self.c.on_curve(p) && self.c.mul(p, &self.r).x.is_zero()
    }
    pub fn decode_class(s: &BigUint) -> &'static str {
        if s.is_zero() {
            "s=0"
        } else {
            "s>0"
        }
    }
}
