//! Reference simulation of the Bernstein-Yang divstep iteration used by the 32-bit backend's
//! inversion (fiat `*_divstep`, driven for a fixed number of iterations by the wrapper), and a
//! deterministic construction of operands with LONG divstep trajectories.
//!
//! divstep(d, f, g) = (1 - d, g, (g - f)/2)            if d > 0 and g odd
//!                    (1 + d, f, (g + (g mod 2) f)/2)   otherwise
//! started at d = 1, f = p, g = a. The inverse is read off once g = 0; a driver that stops
//! earlier than `steps_needed(p, a)` returns a wrong value for that a.
use num_bigint::{BigInt, BigUint, Sign};
use num_traits::{One, Zero};

pub fn steps_needed(p: &BigUint, a: &BigUint) -> u32 {
    let mut d: i64 = 1;
    let mut f = BigInt::from_biguint(Sign::Plus, p.clone());
    let mut g = BigInt::from_biguint(Sign::Plus, a.clone());
    let mut n = 0u32;
    while !g.is_zero() {
        let odd = g.bit(0);
        if d > 0 && odd {
            let ng = (&g - &f) >> 1;
            f = g;
            g = ng;
            d = 1 - d;
        } else {
            if odd {
                g = (&g + &f) >> 1;
            } else {
                g >>= 1;
            }
            d += 1;
        }
        n += 1;
        assert!(n < 100_000);
    }
    n
}

/// Beam search over the bits of g from the least significant end. The first k divsteps depend
/// only on the low k bits of g, so a prefix that has already made the iteration "waste" steps
/// keeps that advantage whatever the upper bits are. Each prefix is scored by the exact number of
/// steps of its completions with a few fixed fillers; the beam keeps the highest scores.
/// Deterministic. Returns candidates a < p with their exact step counts, longest first.
pub fn long_trajectory_family(p: &BigUint, beam: usize, keep: usize) -> Vec<(BigUint, u32)> {
    let bits = p.bits() as usize;
    // fixed fillers for the unknown upper bits
    let fillers: Vec<BigUint> = {
        let mut v = vec![];
        let mut x = BigUint::from(0x9e3779b97f4a7c15u64);
        for _ in 0..3 {
            x = (&x * &x * 6364136223846793005u64 + 1442695040888963407u64) % p;
            v.push(x.clone());
        }
        v
    };
    let complete = |prefix: &BigUint, k: usize, filler: &BigUint| -> BigUint {
        let mask = (BigUint::one() << k) - 1u32;
        let hi = (filler >> k) << k;
        let c = hi + (prefix & &mask);
        if c >= *p { c - p } else { c }
    };
    let mut cur: Vec<BigUint> = vec![BigUint::zero()];
    let step = 1usize;
    let mut k = 0usize;
    while k < bits {
        let score_chunk = |chunk: &[BigUint]| -> Vec<(u32, BigUint)> {
            let mut out = Vec::with_capacity(chunk.len() * 2);
            for pre in chunk {
                for b in 0..2u32 {
                    let mut g0 = pre.clone();
                    if b == 1 {
                        g0.set_bit(k as u64, true);
                    }
                    if g0 >= *p {
                        continue;
                    }
                    let score: u32 = fillers.iter().map(|f| { let c = complete(&g0, k + 1, f); if c.is_zero() { 0 } else { steps_needed(p, &c) } }).sum();
                    out.push((score, g0));
                }
            }
            out
        };
        let nthreads = std::thread::available_parallelism().map(|n| n.get()).unwrap_or(1).min(16);
        let csz = ((cur.len() + nthreads - 1) / nthreads).max(1);
        let mut next: Vec<(u32, BigUint)> = if cur.len() < 32 {
            score_chunk(&cur)
        } else {
            std::thread::scope(|sc| {
                let hs: Vec<_> = cur.chunks(csz).map(|ch| sc.spawn(|| score_chunk(ch))).collect();
                hs.into_iter().flat_map(|h| h.join().unwrap()).collect()
            })
        };
        next.sort_by(|a, b| b.0.cmp(&a.0).then(a.1.cmp(&b.1)));
        next.truncate(beam);
        cur = next.into_iter().map(|x| x.1).collect();
        k += step;
    }
    let mut out: Vec<(BigUint, u32)> = cur.into_iter().filter(|g| !g.is_zero()).map(|g| { let n = steps_needed(p, &g); (g, n) }).collect();
    out.sort_by(|a, b| b.1.cmp(&a.1).then(a.0.cmp(&b.0)));
    out.dedup();
    out.truncate(keep);
    out
}
