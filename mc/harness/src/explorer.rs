//! E1 -- the group explorer: a stateright model whose state is the PRODUCT of the exact internal
//! representative of a real `Element` / `AffinePoint` and the abstract group element (a vector of
//! (Z/r)^2) that should describe it. Every transition calls the REAL operator / method form;
//! the successor is compared with the reference model (conformance), and per-property
//! invariants are evaluated on every distinct product state.
#![allow(non_snake_case)]
use crate::core::*;
use crate::sut::*;
use dashmap::DashMap;
use num_bigint::BigUint;
use num_traits::{One, Zero};
use refmodel::curve::Pt;
use refmodel::fld::u;
use refmodel::group::{GroupModel, V2};
use refmodel::spec::Decaf;
use serde_json::{json, Value};
use stateright::{Checker, Model, Property};
use std::sync::atomic::{AtomicU64, Ordering};
use std::sync::Arc;

#[cfg(feature = "ark")]
use ark_ec::{AffineRepr, CurveGroup, Group, ScalarMul};
#[cfg(feature = "ark")]
use ark_ff::Zero as ArkZero;

#[derive(Clone, Copy, PartialEq, Eq, Hash, Debug, PartialOrd, Ord)]
pub enum Kind {
    E,
    A,
}

/// which property's statement a transition form belongs to
#[derive(Clone, Copy, PartialEq, Eq, Hash, Debug)]
pub enum Cat {
    AddSub, // C04
    Mul,    // C05
    Conv,   // C06
}
impl Cat {
    pub fn prop(self) -> &'static str {
        match self {
            Cat::AddSub => "C04",
            Cat::Mul => "C05",
            Cat::Conv => "C06",
        }
    }
    fn id(self) -> u8 {
        match self {
            Cat::AddSub => 1,
            Cat::Mul => 2,
            Cat::Conv => 3,
        }
    }
}

#[derive(Clone, PartialEq, Eq, Hash, Debug)]
pub struct St {
    pub depth: u8,
    pub kind: Kind,
    pub c: Coords,
    pub m: V2,
    /// 0 = conforms to the model; otherwise Cat::id of the transition that produced a
    /// non-conforming (or panicking) result
    pub bad: u8,
}

#[derive(Clone, Copy, PartialEq, Eq, Debug)]
pub struct Act {
    pub form: u16,
    pub a: u16,
    pub b: u16,
}
pub const SELF: u16 = 65535;
pub const NONE: u16 = 65534;

#[derive(Clone, Copy)]
pub enum Val {
    E(Element),
    #[cfg(feature = "ark")]
    A(Affine),
}
impl Val {
    fn e(&self) -> Element {
        match self {
            Val::E(e) => *e,
            #[cfg(feature = "ark")]
            _ => panic!("harness: expected Element"),
        }
    }
    #[cfg(feature = "ark")]
    fn a(&self) -> Affine {
        match self {
            Val::A(a) => *a,
            _ => panic!("harness: expected AffinePoint"),
        }
    }
    pub fn kind(&self) -> Kind {
        match self {
            Val::E(_) => Kind::E,
            #[cfg(feature = "ark")]
            Val::A(_) => Kind::A,
        }
    }
    pub fn coords(&self) -> Coords {
        match self {
            Val::E(e) => el_coords(e),
            #[cfg(feature = "ark")]
            Val::A(a) => af_coords(a),
        }
    }
    pub fn from_state(kind: Kind, c: &Coords) -> Val {
        match kind {
            Kind::E => Val::E(el_from_coords(c)),
            #[cfg(feature = "ark")]
            Kind::A => Val::A(af_from_coords(c)),
            #[cfg(not(feature = "ark"))]
            Kind::A => unreachable!(),
        }
    }
    /// as an Element, converting an affine point WITHOUT the code under test (Z = 1, T = xy in
    /// reference arithmetic)
    pub fn as_element_ref(&self, f: &refmodel::fld::Fld) -> Element {
        match self {
            Val::E(e) => *e,
            #[cfg(feature = "ark")]
            Val::A(a) => {
                let c = af_coords(a);
                let x = BigUint::from_bytes_le(&c[0]);
                let y = BigUint::from_bytes_le(&c[1]);
                el_from_big(&x, &y, &BigUint::one(), &f.mul(&x, &y))
            }
        }
    }
}

#[derive(Clone)]
pub struct Operand {
    pub name: String,
    pub e: Element,
    #[cfg(feature = "ark")]
    pub a: Affine,
    pub m: V2,
}

pub struct Scalar {
    pub name: String,
    pub big: BigUint,
    /// usable with the Fr forms (value < r)
    pub fr_ok: bool,
    pub fr: Fr,
    pub limbs: Vec<u64>,
}

pub struct In<'a> {
    pub s: Val,
    pub o1: &'a Operand,
    pub o2: &'a Operand,
    pub k: &'a Scalar,
}

#[derive(Clone, Copy, PartialEq, Eq, Debug)]
pub enum Arg {
    None,
    Op1,
    Op2,
    ScalarFr,
    ScalarLimbs,
}
#[derive(Clone, Copy, PartialEq, Eq, Debug)]
pub enum MOp {
    Id,
    Add1,  // s + o1
    Sub1,  // s - o1
    RSub1, // o1 - s
    Neg,
    Dbl,
    Sum2, // s + o1 + o2
    MulK,
}

pub struct Form {
    pub name: &'static str,
    pub cat: Cat,
    pub on: Kind,
    pub arg: Arg,
    pub mop: MOp,
    pub f: fn(&In) -> Val,
}

macro_rules! form {
    ($v:ident, $name:expr, $cat:ident, $on:ident, $arg:ident, $mop:ident, $f:expr) => {
        $v.push(Form { name: $name, cat: Cat::$cat, on: Kind::$on, arg: Arg::$arg, mop: MOp::$mop, f: $f });
    };
}

#[cfg(feature = "ark")]
pub fn forms() -> Vec<Form> {
    let mut v: Vec<Form> = vec![];
    // ---- Element state, Element operand
    form!(v, "E:&s+&o", AddSub, E, Op1, Add1, |i| Val::E(&i.s.e() + &i.o1.e));
    form!(v, "E:s+&o", AddSub, E, Op1, Add1, |i| Val::E(i.s.e() + &i.o1.e));
    form!(v, "E:&s+o", AddSub, E, Op1, Add1, |i| Val::E(&i.s.e() + i.o1.e));
    form!(v, "E:s+o", AddSub, E, Op1, Add1, |i| Val::E(i.s.e() + i.o1.e));
    form!(v, "E:s+=&o", AddSub, E, Op1, Add1, |i| { let mut x = i.s.e(); x += &i.o1.e; Val::E(x) });
    form!(v, "E:s+=o", AddSub, E, Op1, Add1, |i| { let mut x = i.s.e(); x += i.o1.e; Val::E(x) });
    form!(v, "E:&o+&s", AddSub, E, Op1, Add1, |i| Val::E(&i.o1.e + &i.s.e()));
    form!(v, "E:&s-&o", AddSub, E, Op1, Sub1, |i| Val::E(&i.s.e() - &i.o1.e));
    form!(v, "E:s-&o", AddSub, E, Op1, Sub1, |i| Val::E(i.s.e() - &i.o1.e));
    form!(v, "E:&s-o", AddSub, E, Op1, Sub1, |i| Val::E(&i.s.e() - i.o1.e));
    form!(v, "E:s-o", AddSub, E, Op1, Sub1, |i| Val::E(i.s.e() - i.o1.e));
    form!(v, "E:s-=&o", AddSub, E, Op1, Sub1, |i| { let mut x = i.s.e(); x -= &i.o1.e; Val::E(x) });
    form!(v, "E:s-=o", AddSub, E, Op1, Sub1, |i| { let mut x = i.s.e(); x -= i.o1.e; Val::E(x) });
    form!(v, "E:&o-&s", AddSub, E, Op1, RSub1, |i| Val::E(&i.o1.e - &i.s.e()));
    form!(v, "E:o-=s", AddSub, E, Op1, RSub1, |i| { let mut x = i.o1.e; x -= i.s.e(); Val::E(x) });
    // ---- Element state, AffinePoint operand
    form!(v, "E:s+&oa", AddSub, E, Op1, Add1, |i| Val::E(i.s.e() + &i.o1.a));
    form!(v, "E:s+oa", AddSub, E, Op1, Add1, |i| Val::E(i.s.e() + i.o1.a));
    form!(v, "E:s+=&oa", AddSub, E, Op1, Add1, |i| { let mut x = i.s.e(); x += &i.o1.a; Val::E(x) });
    form!(v, "E:s+=oa", AddSub, E, Op1, Add1, |i| { let mut x = i.s.e(); x += i.o1.a; Val::E(x) });
    form!(v, "E:s-&oa", AddSub, E, Op1, Sub1, |i| Val::E(i.s.e() - &i.o1.a));
    form!(v, "E:s-oa", AddSub, E, Op1, Sub1, |i| Val::E(i.s.e() - i.o1.a));
    form!(v, "E:s-=&oa", AddSub, E, Op1, Sub1, |i| { let mut x = i.s.e(); x -= &i.o1.a; Val::E(x) });
    form!(v, "E:s-=oa", AddSub, E, Op1, Sub1, |i| { let mut x = i.s.e(); x -= i.o1.a; Val::E(x) });
    form!(v, "E:oa+s", AddSub, E, Op1, Add1, |i| Val::E(i.o1.a + i.s.e()));
    form!(v, "E:oa+&s", AddSub, E, Op1, Add1, |i| Val::E(i.o1.a + &i.s.e()));
    // ---- Element unary
    form!(v, "E:-s", AddSub, E, None, Neg, |i| Val::E(-i.s.e()));
    form!(v, "E:negate", AddSub, E, None, Neg, |i| Val::E(i.s.e().negate()));
    form!(v, "E:double", AddSub, E, None, Dbl, |i| Val::E(Group::double(&i.s.e())));
    form!(v, "E:double_in_place", AddSub, E, None, Dbl, |i| { let mut x = i.s.e(); Group::double_in_place(&mut x); Val::E(x) });
    // ---- sums
    form!(v, "E:sum_ref[s,o1,o2]", AddSub, E, Op2, Sum2, |i| { let l = [i.s.e(), i.o1.e, i.o2.e]; Val::E(l.iter().sum::<Element>()) });
    form!(v, "E:sum_owned[s,o1,o2]", AddSub, E, Op2, Sum2, |i| { let l = [i.s.e(), i.o1.e, i.o2.e]; Val::E(l.into_iter().sum::<Element>()) });
    form!(v, "E:s+sum_aff_owned[o1,o2]", AddSub, E, Op2, Sum2, |i| { let l = [i.o1.a, i.o2.a]; Val::E(i.s.e() + l.into_iter().sum::<Element>()) });
    form!(v, "E:s+sum_aff_ref[o1,o2]", AddSub, E, Op2, Sum2, |i| { let l = [i.o1.a, i.o2.a]; Val::E(i.s.e() + l.iter().sum::<Element>()) });
    // sums through iterator adaptors whose size_hint lower bound is 0 / which are not ExactSize
    form!(v, "E:sum_ref_filter[s,o1,o2]", AddSub, E, Op2, Sum2, |i| { let l = [i.s.e(), i.o1.e, i.o2.e]; Val::E(l.iter().filter(|_| true).sum::<Element>()) });
    form!(v, "E:sum_owned_filter[s,o1,o2]", AddSub, E, Op2, Sum2, |i| { let l = [i.s.e(), i.o1.e, i.o2.e]; Val::E(l.into_iter().filter(|_| true).sum::<Element>()) });
    form!(v, "E:sum_ref_chain_rev[o2,o1]+[s]", AddSub, E, Op2, Sum2, |i| { let (l, m) = ([i.o2.e, i.o1.e], [i.s.e()]); Val::E(l.iter().rev().chain(m.iter()).sum::<Element>()) });
    form!(v, "E:s+sum_aff_ref_filter[o1,o2]", AddSub, E, Op2, Sum2, |i| { let l = [i.o1.a, i.o2.a]; Val::E(i.s.e() + l.iter().filter(|_| true).sum::<Element>()) });
    form!(v, "E:s+sum_aff_owned_skip_while[o1,o2]", AddSub, E, Op2, Sum2, |i| { let l = [i.o1.a, i.o2.a]; Val::E(i.s.e() + l.into_iter().skip_while(|_| false).sum::<Element>()) });
    // ---- conversions
    form!(v, "E:into_affine", Conv, E, None, Id, |i| Val::A(i.s.e().into_affine()));
    form!(v, "E:Affine::from(s)", Conv, E, None, Id, |i| Val::A(Affine::from(i.s.e())));
    form!(v, "E:Affine::from(&s)", Conv, E, None, Id, |i| Val::A(Affine::from(&i.s.e())));
    form!(v, "E:normalize_batch[o,s][1]", Conv, E, Op1, Id, |i| Val::A(Element::normalize_batch(&[i.o1.e, i.s.e()])[1]));
    form!(v, "E:normalize_batch[s,o][0]", Conv, E, Op1, Id, |i| Val::A(Element::normalize_batch(&[i.s.e(), i.o1.e])[0]));
    form!(v, "E:batch_convert_to_mul_base[o,s][1]", Conv, E, Op1, Id, |i| Val::A(Element::batch_convert_to_mul_base(&[i.o1.e, i.s.e()])[1]));
    // ---- scalar multiplication
    form!(v, "E:&s*&k", Mul, E, ScalarFr, MulK, |i| Val::E(&i.s.e() * &i.k.fr));
    form!(v, "E:&k*&s", Mul, E, ScalarFr, MulK, |i| Val::E(&i.k.fr * &i.s.e()));
    form!(v, "E:s*&k", Mul, E, ScalarFr, MulK, |i| Val::E(i.s.e() * &i.k.fr));
    form!(v, "E:&s*k", Mul, E, ScalarFr, MulK, |i| Val::E(&i.s.e() * i.k.fr));
    form!(v, "E:s*k", Mul, E, ScalarFr, MulK, |i| Val::E(i.s.e() * i.k.fr));
    form!(v, "E:k*&s", Mul, E, ScalarFr, MulK, |i| Val::E(i.k.fr * &i.s.e()));
    form!(v, "E:&k*s", Mul, E, ScalarFr, MulK, |i| Val::E(&i.k.fr * i.s.e()));
    form!(v, "E:k*s", Mul, E, ScalarFr, MulK, |i| Val::E(i.k.fr * i.s.e()));
    form!(v, "E:s*=&k", Mul, E, ScalarFr, MulK, |i| { let mut x = i.s.e(); x *= &i.k.fr; Val::E(x) });
    form!(v, "E:s*=k", Mul, E, ScalarFr, MulK, |i| { let mut x = i.s.e(); x *= i.k.fr; Val::E(x) });
    form!(v, "E:mul_bigint(limbs)", Mul, E, ScalarLimbs, MulK, |i| Val::E(Group::mul_bigint(&i.s.e(), &i.k.limbs)));
    // ---- AffinePoint state, AffinePoint operand
    form!(v, "A:&s+&o", AddSub, A, Op1, Add1, |i| Val::A(&i.s.a() + &i.o1.a));
    form!(v, "A:s+&o", AddSub, A, Op1, Add1, |i| Val::E(i.s.a() + &i.o1.a));
    form!(v, "A:&s+o", AddSub, A, Op1, Add1, |i| Val::A(&i.s.a() + i.o1.a));
    form!(v, "A:s+o", AddSub, A, Op1, Add1, |i| Val::E(i.s.a() + i.o1.a));
    form!(v, "A:s+=&o", AddSub, A, Op1, Add1, |i| { let mut x = i.s.a(); x += &i.o1.a; Val::A(x) });
    form!(v, "A:s+=o", AddSub, A, Op1, Add1, |i| { let mut x = i.s.a(); x += i.o1.a; Val::A(x) });
    form!(v, "A:o+s", AddSub, A, Op1, Add1, |i| Val::E(i.o1.a + i.s.a()));
    form!(v, "A:&s-&o", AddSub, A, Op1, Sub1, |i| Val::A(&i.s.a() - &i.o1.a));
    form!(v, "A:s-&o", AddSub, A, Op1, Sub1, |i| Val::A(i.s.a() - &i.o1.a));
    form!(v, "A:&s-o", AddSub, A, Op1, Sub1, |i| Val::A(&i.s.a() - i.o1.a));
    form!(v, "A:s-o", AddSub, A, Op1, Sub1, |i| Val::A(i.s.a() - i.o1.a));
    form!(v, "A:s-=&o", AddSub, A, Op1, Sub1, |i| { let mut x = i.s.a(); x -= &i.o1.a; Val::A(x) });
    form!(v, "A:s-=o", AddSub, A, Op1, Sub1, |i| { let mut x = i.s.a(); x -= i.o1.a; Val::A(x) });
    form!(v, "A:o-s", AddSub, A, Op1, RSub1, |i| Val::A(i.o1.a - i.s.a()));
    // ---- AffinePoint state, Element operand
    form!(v, "A:s+oe", AddSub, A, Op1, Add1, |i| Val::E(i.s.a() + i.o1.e));
    form!(v, "A:s+&oe", AddSub, A, Op1, Add1, |i| Val::E(i.s.a() + &i.o1.e));
    form!(v, "A:oe+s", AddSub, A, Op1, Add1, |i| Val::E(i.o1.e + i.s.a()));
    form!(v, "A:oe-&s", AddSub, A, Op1, RSub1, |i| Val::E(i.o1.e - &i.s.a()));
    form!(v, "A:-s", AddSub, A, None, Neg, |i| Val::A(-i.s.a()));
    form!(v, "A:sum_aff_ref[s,o1,o2]", AddSub, A, Op2, Sum2, |i| { let l = [i.s.a(), i.o1.a, i.o2.a]; Val::E(l.iter().sum::<Element>()) });
    form!(v, "A:sum_aff_owned[s,o1,o2]", AddSub, A, Op2, Sum2, |i| { let l = [i.s.a(), i.o1.a, i.o2.a]; Val::E(l.into_iter().sum::<Element>()) });
    // ---- conversions
    form!(v, "A:Element::from(s)", Conv, A, None, Id, |i| Val::E(Element::from(i.s.a())));
    form!(v, "A:Element::from(&s)", Conv, A, None, Id, |i| Val::E(Element::from(&i.s.a())));
    form!(v, "A:into_group", Conv, A, None, Id, |i| Val::E(i.s.a().into_group()));
    form!(v, "A:mul_by_cofactor_to_group", Conv, A, None, Id, |i| Val::E(i.s.a().mul_by_cofactor_to_group()));
    form!(v, "A:clear_cofactor", Conv, A, None, Id, |i| Val::A(i.s.a().clear_cofactor()));
    // ---- scalar multiplication
    form!(v, "A:&s*&k", Mul, A, ScalarFr, MulK, |i| Val::A(&i.s.a() * &i.k.fr));
    form!(v, "A:&k*&s", Mul, A, ScalarFr, MulK, |i| Val::A(&i.k.fr * &i.s.a()));
    form!(v, "A:s*&k", Mul, A, ScalarFr, MulK, |i| Val::E(i.s.a() * &i.k.fr));
    form!(v, "A:&s*k", Mul, A, ScalarFr, MulK, |i| Val::A(&i.s.a() * i.k.fr));
    form!(v, "A:s*k", Mul, A, ScalarFr, MulK, |i| Val::E(i.s.a() * i.k.fr));
    form!(v, "A:k*&s", Mul, A, ScalarFr, MulK, |i| Val::A(i.k.fr * &i.s.a()));
    form!(v, "A:&k*s", Mul, A, ScalarFr, MulK, |i| Val::A(&i.k.fr * i.s.a()));
    form!(v, "A:k*s", Mul, A, ScalarFr, MulK, |i| Val::A(i.k.fr * i.s.a()));
    form!(v, "A:s*=&k", Mul, A, ScalarFr, MulK, |i| { let mut x = i.s.a(); x *= &i.k.fr; Val::A(x) });
    form!(v, "A:s*=k", Mul, A, ScalarFr, MulK, |i| { let mut x = i.s.a(); x *= i.k.fr; Val::A(x) });
    form!(v, "A:mul_bigint(limbs)", Mul, A, ScalarLimbs, MulK, |i| Val::E(AffineRepr::mul_bigint(&i.s.a(), &i.k.limbs)));
    v
}

#[cfg(not(feature = "ark"))]
pub fn forms() -> Vec<Form> {
    let mut v: Vec<Form> = vec![];
    form!(v, "E:&s+&o", AddSub, E, Op1, Add1, |i| Val::E(&i.s.e() + &i.o1.e));
    form!(v, "E:s+&o", AddSub, E, Op1, Add1, |i| Val::E(i.s.e() + &i.o1.e));
    form!(v, "E:&s+o", AddSub, E, Op1, Add1, |i| Val::E(&i.s.e() + i.o1.e));
    form!(v, "E:s+o", AddSub, E, Op1, Add1, |i| Val::E(i.s.e() + i.o1.e));
    form!(v, "E:s+=&o", AddSub, E, Op1, Add1, |i| { let mut x = i.s.e(); x += &i.o1.e; Val::E(x) });
    form!(v, "E:s+=o", AddSub, E, Op1, Add1, |i| { let mut x = i.s.e(); x += i.o1.e; Val::E(x) });
    form!(v, "E:&o+&s", AddSub, E, Op1, Add1, |i| Val::E(&i.o1.e + &i.s.e()));
    form!(v, "E:&s-&o", AddSub, E, Op1, Sub1, |i| Val::E(&i.s.e() - &i.o1.e));
    form!(v, "E:s-&o", AddSub, E, Op1, Sub1, |i| Val::E(i.s.e() - &i.o1.e));
    form!(v, "E:&s-o", AddSub, E, Op1, Sub1, |i| Val::E(&i.s.e() - i.o1.e));
    form!(v, "E:s-o", AddSub, E, Op1, Sub1, |i| Val::E(i.s.e() - i.o1.e));
    form!(v, "E:s-=&o", AddSub, E, Op1, Sub1, |i| { let mut x = i.s.e(); x -= &i.o1.e; Val::E(x) });
    form!(v, "E:s-=o", AddSub, E, Op1, Sub1, |i| { let mut x = i.s.e(); x -= i.o1.e; Val::E(x) });
    form!(v, "E:&o-&s", AddSub, E, Op1, RSub1, |i| Val::E(&i.o1.e - &i.s.e()));
    form!(v, "E:o-=s", AddSub, E, Op1, RSub1, |i| { let mut x = i.o1.e; x -= i.s.e(); Val::E(x) });
    form!(v, "E:-s", AddSub, E, None, Neg, |i| Val::E(-i.s.e()));
    form!(v, "E:double", AddSub, E, None, Dbl, |i| Val::E(i.s.e().double()));
    form!(v, "E:&s*&k", Mul, E, ScalarFr, MulK, |i| Val::E(&i.s.e() * &i.k.fr));
    form!(v, "E:&k*&s", Mul, E, ScalarFr, MulK, |i| Val::E(&i.k.fr * &i.s.e()));
    form!(v, "E:s*&k", Mul, E, ScalarFr, MulK, |i| Val::E(i.s.e() * &i.k.fr));
    form!(v, "E:&s*k", Mul, E, ScalarFr, MulK, |i| Val::E(&i.s.e() * i.k.fr));
    form!(v, "E:s*k", Mul, E, ScalarFr, MulK, |i| Val::E(i.s.e() * i.k.fr));
    form!(v, "E:k*&s", Mul, E, ScalarFr, MulK, |i| Val::E(i.k.fr * &i.s.e()));
    form!(v, "E:&k*s", Mul, E, ScalarFr, MulK, |i| Val::E(&i.k.fr * i.s.e()));
    form!(v, "E:k*s", Mul, E, ScalarFr, MulK, |i| Val::E(i.k.fr * i.s.e()));
    form!(v, "E:s*=&k", Mul, E, ScalarFr, MulK, |i| { let mut x = i.s.e(); x *= &i.k.fr; Val::E(x) });
    form!(v, "E:s*=k", Mul, E, ScalarFr, MulK, |i| { let mut x = i.s.e(); x *= i.k.fr; Val::E(x) });
    form!(v, "E:scalar_mul(limbs)", Mul, E, ScalarLimbs, MulK, |i| Val::E(i.s.e().scalar_mul(&i.k.limbs)));
    form!(v, "E:scalar_mul_vartime(limbs)", Mul, E, ScalarLimbs, MulK, |i| Val::E(i.s.e().scalar_mul_vartime(&i.k.limbs)));
    v
}

pub struct Seed {
    pub name: String,
    pub val: Val,
    pub m: V2,
}

/// Which property's invariants this run evaluates
#[derive(Clone, Copy, PartialEq, Eq, Debug)]
pub enum Sel {
    C01,
    C03,
    C04,
    C05,
    C06,
    C08,
}
impl Sel {
    pub fn from(s: &str) -> Option<Sel> {
        Some(match s {
            "C01" => Sel::C01,
            "C03" => Sel::C03,
            "C04" => Sel::C04,
            "C05" => Sel::C05,
            "C06" => Sel::C06,
            "C08" => Sel::C08,
            _ => return None,
        })
    }
    pub fn name(self) -> &'static str {
        match self {
            Sel::C01 => "C01",
            Sel::C03 => "C03",
            Sel::C04 => "C04",
            Sel::C05 => "C05",
            Sel::C06 => "C06",
            Sel::C08 => "C08",
        }
    }
}

pub struct GM {
    pub gm: GroupModel,
    pub pool: Vec<Operand>,
    pub op2: Vec<u16>,
    pub seeds: Vec<Seed>,
    pub forms: Vec<Form>,
    pub scalars: Vec<Scalar>,
    pub max_depth: u8,
    pub sel: Sel,
    pub pts: DashMap<V2, Pt>,
    pub specenc: DashMap<V2, [u8; 32]>,
    pub enc2class: DashMap<[u8; 32], V2>,
    pub class2enc: DashMap<V2, [u8; 32]>,
    pub class_reps: DashMap<V2, Vec<(Kind, Coords, [u8; 32])>>,
    pub pool_enc: std::sync::OnceLock<Vec<[u8; 32]>>,
    pub n_next: AtomicU64,
    pub n_inv: AtomicU64,
    pub n_pairs: AtomicU64,
    pub n_pruned: AtomicU64,
    pub fails: DashMap<&'static str, String>,
    pub classes: DashMap<String, u64>,
}

pub fn build_model(sel: Sel, max_depth: u8) -> GM {
    build_model_ex(sel, max_depth, None)
}

/// `extra`: replace the scalar alphabet (name, value, number of limbs)
pub fn build_model_ex(sel: Sel, max_depth: u8, extra: Option<Vec<(String, BigUint, usize)>>) -> GM {
    let dc = Decaf::new();
    let one = BigUint::one();
    let h = dc.elligator_spec(&one);
    let gm = GroupModel::new(dc, h);
    let c = gm.dc.c.clone();
    let f = c.f.clone();
    let r = gm.dc.r.clone();
    let g = gm.basis[0].clone();
    let hp = gm.basis[1].clone();

    // representative with projective scaling lambda (lambda = 1: Z = 1)
    let scaled = |p: &Pt, lam: &BigUint| -> Element {
        el_from_big(&f.mul(&p.x, lam), &f.mul(&p.y, lam), &f.red(lam), &f.mul(&f.mul(&p.x, &p.y), lam))
    };
    #[cfg(feature = "ark")]
    let aff = |p: &Pt| -> Affine { Affine::verif_from_coords_unchecked(fq(&p.x), fq(&p.y)) };
    let mk = |name: &str, p: &Pt, lam: u64, m: V2| -> Operand {
        Operand {
            name: name.to_string(),
            e: scaled(p, &u(lam)),
            #[cfg(feature = "ark")]
            a: aff(p),
            m,
        }
    };
    let two_g = c.add(&g, &g);
    let hmg = c.sub(&hp, &g);
    let pool = vec![
        mk("identity", &c.identity(), 1, gm.vi(0, 0)),
        mk("T2=(0,-1)", &c.torsion2(), 1, gm.vi(0, 0)),
        mk("G", &g, 1, gm.vi(1, 0)),
        mk("-G", &c.neg(&g), 1, gm.vi(-1, 0)),
        mk("G+T2=(-x,-y)", &c.other_rep(&g), 1, gm.vi(1, 0)),
        mk("2G(Z=3)", &two_g, 3, gm.vi(2, 0)),
        mk("H=Ell(1)", &hp, 1, gm.vi(0, 1)),
        mk("H-G(Z=-1)", &hmg, 0, gm.vi(-1, 1)), // lam fixed below
    ];
    let mut pool = pool;
    {
        let lam = f.neg(&one);
        pool[7].e = scaled(&hmg, &lam);
    }
    let op2 = vec![1u16, 4u16]; // second operand of 3-term sums: T2, G+T2

    // scalars
    let sc = |name: &str, k: BigUint, nl: usize| -> Scalar {
        let fr_ok = k < r;
        Scalar { name: name.to_string(), fr: fr(&(&k % &r)), fr_ok, limbs: limbs_n(&k, nl), big: k }
    };
    let scalars = if let Some(ex) = extra {
        ex.into_iter().map(|(n, k, nl)| sc(&n, k, nl)).collect()
    } else {
        vec![
        sc("0", u(0), 4),
        sc("1", u(1), 4),
        sc("2", u(2), 1),
        sc("r-1", &r - 1u32, 4),
        sc("(r+1)/2", (&r + 1u32) >> 1, 4),
        sc("r+1", &r + 1u32, 4),
        sc("2^256+3", (BigUint::one() << 256) + 3u32, 5),
    ]
    };

    // seeds
    let mut seeds: Vec<Seed> = vec![];
    let mut seed = |name: &str, val: Val, m: V2| seeds.push(Seed { name: name.to_string(), val, m });
    seed("Element::IDENTITY", Val::E(Element::IDENTITY), gm.vi(0, 0));
    seed("Element::GENERATOR", Val::E(Element::GENERATOR), gm.vi(1, 0));
    #[cfg(feature = "ark")]
    {
        seed("Element::default()", Val::E(Element::default()), gm.vi(0, 0));
        seed("<Element as Zero>::zero()", Val::E(<Element as ArkZero>::zero()), gm.vi(0, 0));
        seed("<Element as Group>::generator()", Val::E(<Element as Group>::generator()), gm.vi(1, 0));
    }
    seed("T2=(0,-1) [H1]", Val::E(pool[1].e), gm.vi(0, 0));
    seed("-G [H1]", Val::E(pool[3].e), gm.vi(-1, 0));
    seed("G+T2=(-x,-y) [H1]", Val::E(pool[4].e), gm.vi(1, 0));
    {
        let mut b8 = [0u8; 32];
        b8[0] = 8;
        if let Ok(e) = Encoding(b8).vartime_decompress() {
            seed("decode(8)", Val::E(e), gm.vi(1, 0));
        }
        let e2 = gm.dc.encode_spec_bytes(&two_g).unwrap();
        if let Ok(e) = Encoding(e2).vartime_decompress() {
            seed("decode(enc(2G))", Val::E(e), gm.vi(2, 0));
        }
    }
    seed("encode_to_curve(0)", Val::E(Element::encode_to_curve(&fq(&u(0)))), gm.vi(0, 0));
    seed("encode_to_curve(1)", Val::E(Element::encode_to_curve(&fq(&u(1)))), gm.vi(0, 1));
    seed("G(Z=2) [H1]", Val::E(scaled(&g, &u(2))), gm.vi(1, 0));
    seed("identity(Z=2) [H1]", Val::E(scaled(&c.identity(), &u(2))), gm.vi(0, 0));
    seed("identity(Z=-1) [H1]", Val::E(scaled(&c.identity(), &f.neg(&one))), gm.vi(0, 0));
    seed("T2(Z=-1) [H1]", Val::E(scaled(&c.torsion2(), &f.neg(&one))), gm.vi(0, 0));
    seed("2G(Z=3) [H1]", Val::E(pool[5].e), gm.vi(2, 0));
    seed("H-G(Z=-1) [H1]", Val::E(pool[7].e), gm.vi(-1, 1));
    {
        // results of real scalar multiplications (Z != 1 produced by the code itself)
        let ks: [(&str, BigUint); 3] = [("3", u(3)), ("r-1", &r - 1u32), ("(r-1)/2", (&r - 1u32) >> 1)];
        for (n, k) in ks.iter() {
            let e = Element::GENERATOR * fr(k);
            seed(&format!("GENERATOR*{n}"), Val::E(e), gm.v(k, &BigUint::zero()));
        }
    }
    #[cfg(feature = "ark")]
    {
        seed("Affine::zero()", Val::A(<Affine as AffineRepr>::zero()), gm.vi(0, 0));
        seed("Affine::generator()", Val::A(<Affine as AffineRepr>::generator()), gm.vi(1, 0));
        seed("Affine::default()", Val::A(Affine::default()), gm.vi(0, 0));
        seed("affine T2 [H1]", Val::A(pool[1].a), gm.vi(0, 0));
        seed("affine G+T2 [H1]", Val::A(pool[4].a), gm.vi(1, 0));
        seed("affine H [H1]", Val::A(pool[6].a), gm.vi(0, 1));
    }
    drop(seed);

    GM {
        gm,
        pool,
        op2,
        seeds,
        forms: forms(),
        scalars,
        max_depth,
        sel,
        pts: DashMap::new(),
        specenc: DashMap::new(),
        enc2class: DashMap::new(),
        class2enc: DashMap::new(),
        class_reps: DashMap::new(),
        pool_enc: std::sync::OnceLock::new(),
        n_next: AtomicU64::new(0),
        n_inv: AtomicU64::new(0),
        n_pairs: AtomicU64::new(0),
        n_pruned: AtomicU64::new(0),
        fails: DashMap::new(),
        classes: DashMap::new(),
    }
}

impl GM {
    pub fn pt(&self, m: &V2) -> Pt {
        if let Some(p) = self.pts.get(m) {
            return p.clone();
        }
        let p = self.gm.concretise(m);
        self.pts.insert(*m, p.clone());
        p
    }
    pub fn spec_enc(&self, m: &V2) -> [u8; 32] {
        if let Some(e) = self.specenc.get(m) {
            return *e;
        }
        let e = self.gm.dc.encode_spec_bytes(&self.pt(m)).expect("reference class point is in 2E");
        self.specenc.insert(*m, e);
        e
    }
    /// conformance relation between an exact representative and the model class
    pub fn conforms(&self, kind: Kind, c: &Coords, m: &V2) -> bool {
        let f = &self.gm.dc.c.f;
        let p = self.pt(m);
        let cb = coords_big(c);
        match kind {
            Kind::E => {
                let (x, y, z, t) = (&cb[0], &cb[1], &cb[2], &cb[3]);
                if z.is_zero() {
                    return false;
                }
                if f.mul(t, z) != f.mul(x, y) {
                    return false;
                }
                let ex = f.mul(&p.x, z);
                let ey = f.mul(&p.y, z);
                (*x == ex && *y == ey) || (*x == f.neg(&ex) && *y == f.neg(&ey))
            }
            Kind::A => {
                let (x, y) = (&cb[0], &cb[1]);
                (*x == p.x && *y == p.y) || (*x == f.neg(&p.x) && *y == f.neg(&p.y))
            }
        }
    }
    fn self_operand(&self, s: &St) -> Operand {
        let f = &self.gm.dc.c.f;
        let cb = coords_big(&s.c);
        match s.kind {
            Kind::E => {
                #[cfg(feature = "ark")]
                let a = {
                    let zi = f.inv(&cb[2]).expect("conforming state has Z != 0");
                    Affine::verif_from_coords_unchecked(fq(&f.mul(&cb[0], &zi)), fq(&f.mul(&cb[1], &zi)))
                };
                Operand {
                    name: "self".into(),
                    e: el_from_coords(&s.c),
                    #[cfg(feature = "ark")]
                    a,
                    m: s.m,
                }
            }
            Kind::A => Operand {
                name: "self".into(),
                e: el_from_big(&cb[0], &cb[1], &BigUint::one(), &f.mul(&cb[0], &cb[1])),
                #[cfg(feature = "ark")]
                a: af_from_coords(&s.c),
                m: s.m,
            },
        }
    }
    pub fn model_op(&self, mop: MOp, s: &V2, o1: &V2, o2: &V2, k: &BigUint) -> V2 {
        let g = &self.gm;
        match mop {
            MOp::Id => *s,
            MOp::Add1 => g.add(s, o1),
            MOp::Sub1 => g.sub(s, o1),
            MOp::RSub1 => g.sub(o1, s),
            MOp::Neg => g.neg(s),
            MOp::Dbl => g.add(s, s),
            MOp::Sum2 => g.add(&g.add(s, o1), o2),
            MOp::MulK => g.smul(k, s),
        }
    }
    /// execute one action on the real code; returns successor (possibly flagged bad)
    pub fn step(&self, s: &St, a: Act) -> St {
        let form = &self.forms[a.form as usize];
        let selfop;
        let o1: &Operand = if a.a == SELF {
            selfop = self.self_operand(s);
            &selfop
        } else if (a.a as usize) < self.pool.len() {
            &self.pool[a.a as usize]
        } else {
            &self.pool[0]
        };
        let o2: &Operand = if (a.b as usize) < self.pool.len() { &self.pool[a.b as usize] } else { &self.pool[0] };
        let k: &Scalar = match form.arg {
            Arg::ScalarFr | Arg::ScalarLimbs => &self.scalars[a.a as usize],
            _ => &self.scalars[0],
        };
        let m2 = self.model_op(form.mop, &s.m, &o1.m, &o2.m, &k.big);
        let sv = Val::from_state(s.kind, &s.c);
        let inp = In { s: sv, o1, o2, k };
        let res = guarded(|| (form.f)(&inp));
        match res {
            Ok(v) => {
                let kind = v.kind();
                let c = v.coords();
                let ok = self.conforms(kind, &c, &m2);
                St { depth: s.depth + 1, kind, c, m: m2, bad: if ok { 0 } else { form.cat.id() } }
            }
            Err(_) => St { depth: s.depth + 1, kind: Kind::E, c: [[0xEE; 32]; 4], m: m2, bad: form.cat.id() },
        }
    }
    pub fn describe_act(&self, a: &Act) -> Value {
        let form = &self.forms[a.form as usize];
        let opn = |i: u16| -> String {
            if i == SELF {
                "self".into()
            } else if (i as usize) < self.pool.len() {
                self.pool[i as usize].name.clone()
            } else {
                "-".into()
            }
        };
        match form.arg {
            Arg::None => json!({"form": form.name}),
            Arg::Op1 => json!({"form": form.name, "o1": opn(a.a)}),
            Arg::Op2 => json!({"form": form.name, "o1": opn(a.a), "o2": opn(a.b)}),
            Arg::ScalarFr | Arg::ScalarLimbs => json!({"form": form.name, "k": self.scalars[a.a as usize].name}),
        }
    }
    pub fn parse_act(&self, v: &Value) -> Option<Act> {
        let name = v.get("form")?.as_str()?;
        let fi = self.forms.iter().position(|f| f.name == name)?;
        let form = &self.forms[fi];
        let opi = |key: &str| -> Option<u16> {
            let n = v.get(key)?.as_str()?;
            if n == "self" {
                return Some(SELF);
            }
            self.pool.iter().position(|o| o.name == n).map(|i| i as u16)
        };
        Some(match form.arg {
            Arg::None => Act { form: fi as u16, a: NONE, b: NONE },
            Arg::Op1 => Act { form: fi as u16, a: opi("o1")?, b: NONE },
            Arg::Op2 => Act { form: fi as u16, a: opi("o1")?, b: opi("o2")? },
            Arg::ScalarFr | Arg::ScalarLimbs => {
                let n = v.get("k")?.as_str()?;
                Act { form: fi as u16, a: self.scalars.iter().position(|s| s.name == n)? as u16, b: NONE }
            }
        })
    }

    /// control class of a product state: representation shape x which member of the coset
    pub fn classify(&self, s: &St) {
        if s.bad != 0 {
            *self.classes.entry("nonconforming".into()).or_insert(0) += 1;
            return;
        }
        let f = &self.gm.dc.c.f;
        let p = self.pt(&s.m);
        let cb = coords_big(&s.c);
        let one = BigUint::one();
        let (kind, z, twin) = match s.kind {
            Kind::E => {
                let z = if cb[2] == one { "Z=1" } else if cb[2] == f.neg(&one) { "Z=-1" } else { "Z=other" };
                ("Element", z, cb[0] != f.mul(&p.x, &cb[2]) || cb[1] != f.mul(&p.y, &cb[2]))
            }
            Kind::A => ("AffinePoint", "-", cb[0] != p.x || cb[1] != p.y),
        };
        let id = if self.gm.is_zero(&s.m) { "identity" } else { "non-identity" };
        *self.classes.entry(format!("E1/{kind}/{id}/{z}/{}", if twin { "other-coset-member" } else { "reference-member" })).or_insert(0) += 1;
    }

    fn fail(&self, name: &'static str, msg: String) -> bool {
        self.fails.entry(name).or_insert(msg);
        false
    }

    // ----- per-state invariants. Each returns true iff it holds; on failure the first message
    // is kept in `fails` (details are re-derived from the discovered path for the replay).

    /// C01: decode(encode(E)) == E, encode(decode(encode(E))) == encode(E); bijection on the
    /// explored set (encoding <-> model class).
    pub fn inv_c01(&self, s: &St) -> bool {
        let f = &self.gm.dc.c.f;
        let e = Val::from_state(s.kind, &s.c).as_element_ref(f);
        let enc = e.vartime_compress();
        let dec = match enc.vartime_decompress() {
            Ok(d) => d,
            Err(_) => return self.fail("C01:roundtrip", format!("decompress(compress(E)) is an error; enc={}", hex::encode(enc.0))),
        };
        if !(dec == e) || !(e == dec) {
            return self.fail("C01:roundtrip", format!("decompress(compress(E)) != E; enc={}", hex::encode(enc.0)));
        }
        let enc2 = dec.vartime_compress();
        if enc2.0 != enc.0 {
            return self.fail("C01:roundtrip", format!("compress(decompress(b)) = {} != b = {}", hex::encode(enc2.0), hex::encode(enc.0)));
        }
        // bijection: one encoding <-> one class
        let prev = *self.enc2class.entry(enc.0).or_insert(s.m);
        if prev != s.m {
            return self.fail("C01:bijection", format!("encoding {} produced for two different group elements {:?} and {:?}", hex::encode(enc.0), prev, s.m));
        }
        let pe = *self.class2enc.entry(s.m).or_insert(enc.0);
        if pe != enc.0 {
            return self.fail("C01:bijection", format!("group element {:?} has two encodings {} and {}", s.m, hex::encode(pe), hex::encode(enc.0)));
        }
        true
    }

    /// C03: every encode exit gives the specification's canonical encoding of the class
    pub fn inv_c03(&self, s: &St) -> bool {
        let f = &self.gm.dc.c.f;
        let want = self.spec_enc(&s.m);
        let v = Val::from_state(s.kind, &s.c);
        let e = v.as_element_ref(f);
        let mut exits: Vec<(&'static str, Vec<u8>)> = vec![];
        exits.push(("vartime_compress", e.vartime_compress().0.to_vec()));
        exits.push(("vartime_compress_to_field.to_bytes_le", e.vartime_compress_to_field().to_bytes_le().to_vec()));
        exits.push(("<[u8;32]>::from(Element)", <[u8; 32]>::from(e).to_vec()));
        exits.push(("Encoding::from(Element)", Encoding::from(e).0.to_vec()));
        exits.push(("Encoding::from(&Element)", Encoding::from(&e).0.to_vec()));
        #[cfg(feature = "ark")]
        {
            use ark_ff::{BigInteger, PrimeField};
            use ark_serialize::CanonicalSerialize;
            exits.push(("compress_to_field.into_bigint.to_bytes_le", e.vartime_compress_to_field().into_bigint().to_bytes_le()));
            let mut b = vec![];
            e.serialize_compressed(&mut b).unwrap();
            exits.push(("Element::serialize_compressed", b));
            let hexs = hex::encode(want);
            let dbg = format!("{:?}", e);
            let dsp = format!("{}", e);
            if dbg != format!("decaf377::Element({hexs})") || dsp != format!("decaf377::Element({hexs})") {
                return self.fail("C03:spec_encoding", format!("Debug/Display of Element = {dbg} / {dsp}, expected hex {hexs}"));
            }
            // the affine view of the same state
            let a: Affine = match v {
                Val::A(a) => a,
                Val::E(_) => {
                    let cb = coords_big(&s.c);
                    let zi = f.inv(&cb[2]).unwrap();
                    Affine::verif_from_coords_unchecked(fq(&f.mul(&cb[0], &zi)), fq(&f.mul(&cb[1], &zi)))
                }
            };
            let mut b = vec![];
            a.serialize_compressed(&mut b).unwrap();
            exits.push(("AffinePoint::serialize_compressed", b));
            let dbg = format!("{:?}", a);
            let dsp = format!("{}", a);
            if dbg != format!("decaf377::AffinePoint({hexs})") || dsp != format!("decaf377::AffinePoint({hexs})") {
                return self.fail("C03:spec_encoding", format!("Debug/Display of AffinePoint = {dbg} / {dsp}, expected hex {hexs}"));
            }
            if e.serialized_size(ark_serialize::Compress::Yes) != 32 || a.serialized_size(ark_serialize::Compress::Yes) != 32 {
                return self.fail("C03:spec_encoding", "serialized_size != 32".into());
            }
        }
        for (name, b) in exits {
            if b[..] != want[..] {
                return self.fail("C03:spec_encoding", format!("{name} = {} but encodeSpec(class) = {}", hex::encode(&b), hex::encode(want)));
            }
        }
        if want[31] >> 5 != 0 {
            return self.fail("C03:spec_encoding", "top three bits set".into());
        }
        // injectivity across classes over the explored set
        let prev = *self.enc2class.entry(want).or_insert(s.m);
        if prev != s.m {
            return self.fail("C03:injective", format!("two model classes share encoding {}", hex::encode(want)));
        }
        true
    }

    /// C08: equality / hash / identity predicates coherent with the class structure
    pub fn inv_c08_identity(&self, s: &St) -> bool {
        let is_id_class = self.gm.is_zero(&s.m);
        let v = Val::from_state(s.kind, &s.c);
        // identity predicates
        match v {
            Val::E(e) => {
                let mut preds: Vec<(&'static str, bool)> = vec![("is_identity", e.is_identity()), ("== IDENTITY", e == Element::IDENTITY), ("IDENTITY ==", Element::IDENTITY == e)];
                #[cfg(feature = "ark")]
                {
                    preds.push(("Zero::is_zero", ArkZero::is_zero(&e)));
                    preds.push(("== default()", e == Element::default()));
                    preds.push(("enc == 0", e.vartime_compress().0 == [0u8; 32]));
                }
                for (n, b) in preds {
                    if b != is_id_class {
                        return self.fail("C08:identity_predicates", format!("Element {n} = {b} but the element {} the identity", if is_id_class { "is" } else { "is not" }));
                    }
                }
            }
            #[cfg(feature = "ark")]
            Val::A(a) => {
                let preds: Vec<(&'static str, bool)> = vec![
                    ("AffineRepr::is_zero", AffineRepr::is_zero(&a)),
                    ("== AffinePoint::zero()", a == <Affine as AffineRepr>::zero()),
                    ("== AffinePoint::default()", a == Affine::default()),
                ];
                for (n, b) in preds {
                    if b != is_id_class {
                        return self.fail("C08:identity_predicates", format!("AffinePoint {n} = {b} but the point {} the identity", if is_id_class { "is" } else { "is not" }));
                    }
                }
            }
        }
        true
    }

    /// C08: all pairs with the stored representatives of the same class (must be equal, hash
    /// equally, encode equally) and with the pool operands (equal iff same class)
    pub fn inv_c08_pairs(&self, s: &St) -> bool {
        let v = Val::from_state(s.kind, &s.c);
        let f = &self.gm.dc.c.f;
        let my_enc = v.as_element_ref(f).vartime_compress().0;
        let mine = (s.kind, s.c, my_enc);
        let reps: Vec<(Kind, Coords, [u8; 32])> = {
            let mut ent = self.class_reps.entry(s.m).or_insert_with(Vec::new);
            let cur = ent.clone();
            if !cur.contains(&mine) && cur.len() < 6 {
                ent.push(mine);
            }
            cur
        };
        for (k2, c2, e2) in reps.iter().filter(|r| r.0 == s.kind) {
            let w = Val::from_state(*k2, c2);
            self.n_pairs.fetch_add(1, Ordering::Relaxed);
            if !self.pair_coherent(&v, &my_enc, &w, e2, true) {
                return self.fail("C08:eq_hash_pairs", format!("representatives {:?} and {:?} of one element: ==/hash/encoding disagree", hex_coords(&s.c), hex_coords(c2)));
            }
        }
        let pool_enc = self.pool_enc.get_or_init(|| self.pool.iter().map(|o| o.e.vartime_compress().0).collect());
        for (oi, o) in self.pool.iter().enumerate() {
            let w = match s.kind {
                Kind::E => Val::E(o.e),
                #[cfg(feature = "ark")]
                Kind::A => Val::A(o.a),
                #[cfg(not(feature = "ark"))]
                Kind::A => unreachable!(),
            };
            let same = o.m == s.m;
            self.n_pairs.fetch_add(1, Ordering::Relaxed);
            if !self.pair_coherent(&v, &my_enc, &w, &pool_enc[oi], same) {
                return self.fail(
                    if same { "C08:eq_hash_pairs" } else { "C08:eq_hash_pairs" },
                    format!("state {:?} vs pool operand {}: expected {}", hex_coords(&s.c), o.name, if same { "equal (==, hash, encoding)" } else { "unequal (!=, encoding)" }),
                );
            }
        }
        true
    }
    fn pair_coherent(&self, v: &Val, ea: &[u8; 32], w: &Val, eb: &[u8; 32], same: bool) -> bool {
        if (ea == eb) != same {
            return false;
        }
        match (v, w) {
            (Val::E(a), Val::E(b)) => {
                if (a == b) != same || (b == a) != same {
                    return false;
                }
                #[cfg(feature = "ark")]
                if same && (h64(a) != h64(b) || hash2(a) != hash2(b)) {
                    return false;
                }
                true
            }
            #[cfg(feature = "ark")]
            (Val::A(a), Val::A(b)) => {
                if (a == b) != same || (b == a) != same {
                    return false;
                }
                if same && (h64(a) != h64(b) || hash2(a) != hash2(b)) {
                    return false;
                }
                true
            }
            #[cfg(feature = "ark")]
            _ => true,
        }
    }

    /// C05 (state part): r * P is the identity under every identity predicate
    pub fn inv_c05(&self, s: &St) -> bool {
        let f = &self.gm.dc.c.f;
        let e = Val::from_state(s.kind, &s.c).as_element_ref(f);
        let rl = limbs_n(&self.gm.dc.r, 4);
        #[cfg(feature = "ark")]
        let rp = Group::mul_bigint(&e, &rl);
        #[cfg(not(feature = "ark"))]
        let rp = e.scalar_mul_vartime(&rl);
        if !rp.is_identity() || !(rp == Element::IDENTITY) || rp.vartime_compress().0 != [0u8; 32] {
            return self.fail("C05:order_divides_r", format!("r*P is not the identity for P = {:?}", hex_coords(&s.c)));
        }
        true
    }

    /// C06 (state part): every reachable value is a valid representative
    pub fn inv_c06(&self, s: &St) -> bool {
        let f = &self.gm.dc.c.f;
        let cb = coords_big(&s.c);
        let p = match s.kind {
            Kind::E => {
                if cb[2].is_zero() {
                    return self.fail("C06:valid", "Z = 0".into());
                }
                let zi = f.inv(&cb[2]).unwrap();
                Pt { x: f.mul(&cb[0], &zi), y: f.mul(&cb[1], &zi) }
            }
            Kind::A => Pt { x: cb[0].clone(), y: cb[1].clone() },
        };
        if !self.gm.dc.c.on_curve(&p) {
            return self.fail("C06:valid", format!("off curve: {:?}", hex_coords(&s.c)));
        }
        // in 2E: same class as the model's reference point (which is in 2E by construction)
        if !self.gm.dc.c.same_class(&p, &self.pt(&s.m)) {
            return self.fail("C06:valid", format!("not the modelled element: {:?}", hex_coords(&s.c)));
        }
        // its encoding decodes to an element equal to it (through the real API)
        let e = Val::from_state(s.kind, &s.c).as_element_ref(f);
        match e.vartime_compress().vartime_decompress() {
            Ok(d) if d == e => true,
            _ => self.fail("C06:valid", format!("encoding does not decode back: {:?}", hex_coords(&s.c))),
        }
    }
}

#[cfg(feature = "ark")]
fn hash2<T: std::hash::Hash>(t: &T) -> u64 {
    // a second, differently keyed hasher (FNV-1a over the written bytes)
    struct Fnv(u64);
    impl std::hash::Hasher for Fnv {
        fn finish(&self) -> u64 {
            self.0
        }
        fn write(&mut self, bytes: &[u8]) {
            for b in bytes {
                self.0 ^= *b as u64;
                self.0 = self.0.wrapping_mul(0x100000001b3);
            }
        }
    }
    let mut h = Fnv(0xcbf29ce484222325);
    t.hash(&mut h);
    std::hash::Hasher::finish(&h)
}

impl Model for GM {
    type State = St;
    type Action = Act;

    fn init_states(&self) -> Vec<St> {
        self.seeds
            .iter()
            .map(|sd| {
                let c = sd.val.coords();
                let kind = sd.val.kind();
                St { depth: 0, kind, c, m: sd.m, bad: 0 }
            })
            .filter(|s| self.conforms(s.kind, &s.c, &s.m))
            .collect()
    }

    fn actions(&self, s: &St, out: &mut Vec<Act>) {
        if s.bad != 0 || s.depth >= self.max_depth {
            return;
        }
        for (fi, form) in self.forms.iter().enumerate() {
            if form.on != s.kind {
                continue;
            }
            let fi = fi as u16;
            match form.arg {
                Arg::None => out.push(Act { form: fi, a: NONE, b: NONE }),
                Arg::Op1 => {
                    for i in 0..self.pool.len() as u16 {
                        out.push(Act { form: fi, a: i, b: NONE });
                    }
                    out.push(Act { form: fi, a: SELF, b: NONE });
                }
                Arg::Op2 => {
                    for i in 0..self.pool.len() as u16 {
                        for &j in &self.op2 {
                            out.push(Act { form: fi, a: i, b: j });
                        }
                    }
                }
                Arg::ScalarFr => {
                    for (i, k) in self.scalars.iter().enumerate() {
                        if k.fr_ok {
                            out.push(Act { form: fi, a: i as u16, b: NONE });
                        }
                    }
                }
                Arg::ScalarLimbs => {
                    for i in 0..self.scalars.len() as u16 {
                        out.push(Act { form: fi, a: i, b: NONE });
                    }
                }
            }
        }
    }

    fn next_state(&self, s: &St, a: Act) -> Option<St> {
        self.n_next.fetch_add(1, Ordering::Relaxed);
        Some(self.step(s, a))
    }

    fn within_boundary(&self, s: &St) -> bool {
        if s.depth > self.max_depth {
            return false;
        }
        if s.bad != 0 {
            // a non-conforming successor is a violation of the property that owns the
            // transition form; in runs for other properties it is pruned (not checked further)
            let owner = match s.bad {
                1 => Sel::C04,
                2 => Sel::C05,
                _ => Sel::C06,
            };
            if owner != self.sel {
                self.n_pruned.fetch_add(1, Ordering::Relaxed);
                return false;
            }
        }
        true
    }

    fn properties(&self) -> Vec<Property<Self>> {
        let mut v: Vec<Property<Self>> = vec![];
        // never discovered: forces complete exploration even after a violation was found
        v.push(Property::sometimes("__exhaust", |_, _| false));
        match self.sel {
            Sel::C01 => {
                v.push(Property::always("C01:roundtrip+bijection", |m: &GM, s: &St| {
                    m.n_inv.fetch_add(1, Ordering::Relaxed);
                    m.classify(s);
                    m.inv_c01(s)
                }));
            }
            Sel::C03 => {
                v.push(Property::always("C03:spec_encoding", |m: &GM, s: &St| {
                    m.n_inv.fetch_add(1, Ordering::Relaxed);
                    m.classify(s);
                    m.inv_c03(s)
                }));
            }
            Sel::C04 => {
                v.push(Property::always("C04:group_law_conformance", |m: &GM, s: &St| {
                    m.n_inv.fetch_add(1, Ordering::Relaxed);
                    m.classify(s);
                    s.bad != 1
                }));
            }
            Sel::C05 => {
                v.push(Property::always("C05:scalar_mul_conformance", |m: &GM, s: &St| {
                    m.n_inv.fetch_add(1, Ordering::Relaxed);
                    m.classify(s);
                    s.bad != 2
                }));
                v.push(Property::always("C05:order_divides_r", |m: &GM, s: &St| s.bad != 0 || m.inv_c05(s)));
            }
            Sel::C06 => {
                v.push(Property::always("C06:conversion_conformance", |m: &GM, s: &St| {
                    m.n_inv.fetch_add(1, Ordering::Relaxed);
                    m.classify(s);
                    s.bad != 3
                }));
                v.push(Property::always("C06:valid", |m: &GM, s: &St| s.bad != 0 || m.inv_c06(s)));
            }
            Sel::C08 => {
                v.push(Property::always("C08:identity_predicates", |m: &GM, s: &St| {
                    m.n_inv.fetch_add(1, Ordering::Relaxed);
                    m.classify(s);
                    m.inv_c08_identity(s)
                }));
                v.push(Property::always("C08:eq_hash_pairs", |m: &GM, s: &St| m.inv_c08_pairs(s)));
            }
        }
        v
    }
}

/// re-execute an action list from a named seed on the real code, without the explorer;
/// returns the per-step trace and whether every step conformed.
pub fn replay_path(gm: &GM, seed_name: &str, acts: &[Value]) -> (bool, Vec<Value>) {
    let mut trace = vec![];
    let sd = match gm.seeds.iter().find(|s| s.name == seed_name) {
        Some(s) => s,
        None => return (false, vec![json!({"error": format!("unknown seed {seed_name}")})]),
    };
    let mut st = St { depth: 0, kind: sd.val.kind(), c: sd.val.coords(), m: sd.m, bad: 0 };
    let mut ok = gm.conforms(st.kind, &st.c, &st.m);
    if ok {
        gm.fails.clear();
        for pr in gm.properties() {
            if pr.expectation == stateright::Expectation::Always && !(pr.condition)(gm, &st) {
                ok = false;
            }
        }
    }
    let mut msgs: Vec<String> = gm.fails.iter().map(|e| format!("{}: {}", e.key(), e.value())).collect();
    msgs.sort();
    trace.push(json!({"seed": seed_name, "coords": hex_coords(&st.c), "conforms_and_invariants_hold": ok, "invariant_failures": msgs}));
    for av in acts {
        let a = match gm.parse_act(av) {
            Some(a) => a,
            None => {
                trace.push(json!({"error": format!("cannot parse action {av}")}));
                return (false, trace);
            }
        };
        if st.bad != 0 {
            break;
        }
        let mut g2 = St { depth: 0, ..st.clone() };
        g2.depth = 0;
        st = gm.step(&g2, a);
        let p = gm.pt(&st.m);
        let mut inv_ok = true;
        let mut msgs = vec![];
        if st.bad == 0 {
            gm.fails.clear();
            for pr in gm.properties() {
                if pr.expectation == stateright::Expectation::Always && !(pr.condition)(gm, &st) {
                    inv_ok = false;
                }
            }
            msgs = gm.fails.iter().map(|e| format!("{}: {}", e.key(), e.value())).collect();
            msgs.sort();
        }
        trace.push(json!({"action": av, "kind": format!("{:?}", st.kind), "got_coords": hex_coords(&st.c),
            "expected_class_point": [p.x.to_string(), p.y.to_string()], "conforms": st.bad == 0,
            "invariants_hold": inv_ok, "invariant_failures": msgs}));
        ok &= st.bad == 0 && inv_ok;
    }
    (ok, trace)
}

pub fn run(ctx: &Arc<Ctx>, sel: Sel) {
    let depth: u8 = std::env::var("VERIF_DEPTH").ok().and_then(|s| s.parse().ok()).unwrap_or(ctx.t(3, 4));
    let gm = build_model(sel, depth);
    let nseeds_all = gm.seeds.len();
    let inits = gm.init_states();
    let nseeds = inits.len();
    if nseeds != nseeds_all {
        let bad: Vec<String> = gm.seeds.iter().filter(|sd| !gm.conforms(sd.val.kind(), &sd.val.coords(), &sd.m)).map(|s| s.name.clone()).collect();
        ctx.report.set("nonconforming_seeds_dropped", json!(bad));
    }
    let nforms = gm.forms.len();
    let threads = rayon::current_num_threads();
    let t0 = std::time::Instant::now();
    let (stats, disc) = crate::bfs::run_bfs(&gm);
    let bfs_wall = t0.elapsed().as_secs_f64();
    let r = &ctx.report;
    r.states.store(stats.unique, Ordering::Relaxed);
    r.transitions.store(stats.generated, Ordering::Relaxed);
    r.traces.store(gm.n_next.load(Ordering::Relaxed), Ordering::Relaxed);
    r.evaluations.fetch_add(gm.n_inv.load(Ordering::Relaxed), Ordering::Relaxed);
    r.distinct_extra.fetch_add(stats.unique, Ordering::Relaxed);
    for e in gm.classes.iter() {
        *r.classes.entry(e.key().clone()).or_insert(0) += *e.value();
    }
    r.set("explorer", json!({
        "engine": "layered parallel BFS over a stateright::Model (bfs.rs), 128-bit state fingerprints", "threads": threads,
        "depth_bound": depth, "states_per_depth": stats.per_depth, "bfs_wall_s": bfs_wall,
        "seeds": nseeds, "operator_forms": nforms, "pool_operands": gm.pool.len(), "scalars": gm.scalars.len(),
        "distinct_model_classes": gm.pts.len(), "invariant_evaluations": gm.n_inv.load(Ordering::Relaxed),
        "real_transitions_executed": gm.n_next.load(Ordering::Relaxed),
        "pair_comparisons": gm.n_pairs.load(Ordering::Relaxed),
        "nonconforming_successors_pruned_other_property": gm.n_pruned.load(Ordering::Relaxed),
        "distinct_encodings": gm.enc2class.len(),
    }));
    r.rule(format!(
        "E1[{BUILD}]: all programs of length <= {depth} over {nforms} operator/method forms x {} pool operands (+self) x {} scalars from {nseeds} seed representatives; product state = exact (X,Y,Z,T)/(x,y) bytes x model vector x depth; distinct = distinct product states; every transition executes the real code and is compared with the model",
        gm.pool.len(), gm.scalars.len()
    ));
    r.assume("E1: the two-generator free Z/r-module is a faithful model (no accidental relation a*G + b*Elligator(1) = 0 with the small coefficients reached)");

    // cross-validation of the BFS engine against stateright's own checker on the same model
    let xdepth: u8 = std::env::var("VERIF_XDEPTH").ok().and_then(|s| s.parse().ok()).unwrap_or(ctx.t(1, 2)).min(depth);
    {
        let gm2 = build_model(sel, xdepth);
        let checker = gm2.checker().threads(threads).spawn_bfs().join();
        let sr_unique = checker.unique_state_count() as u64;
        let mine: u64 = stats.per_depth.iter().take(xdepth as usize + 1).sum();
        r.set("stateright_crosscheck", json!({"depth": xdepth, "stateright_unique_states": sr_unique, "bfs_unique_states_to_that_depth": mine,
            "stateright_generated": checker.state_count(), "stateright_discoveries": checker.discoveries().keys().filter(|k| **k != "__exhaust").count()}));
        if sr_unique != mine {
            r.machinery_error(format!("engine cross-check failed: stateright found {sr_unique} distinct states to depth {xdepth}, bfs.rs found {mine}"));
        }
    }

    // determinism: a second, independent exploration of the shallow levels must find exactly
    // the same number of distinct states per depth
    {
        let d2 = depth.min(2);
        let gm3 = build_model(sel, d2);
        let (st2, _) = crate::bfs::run_bfs(&gm3);
        let same = st2.per_depth[..] == stats.per_depth[..st2.per_depth.len().min(stats.per_depth.len())];
        r.set("determinism_recheck", json!({"depth": d2, "states_per_depth_second_run": st2.per_depth, "identical": same}));
        if !same && disc.is_empty() {
            r.machinery_error(format!("exploration is not deterministic: second run found {:?} states per depth, first run {:?}", st2.per_depth, stats.per_depth));
        }
    }

    for d in disc.iter() {
        let name = d.prop;
        let seed_state = &d.states[0];
        let seed_name = gm.seeds.iter().find(|sd| sd.val.coords() == seed_state.c && sd.m == seed_state.m && sd.val.kind() == seed_state.kind).map(|s| s.name.clone()).unwrap_or("?".into());
        let acts: Vec<Value> = d.actions.iter().map(|a| gm.describe_act(a)).collect();
        let last = d.states.last().unwrap();
        let p = gm.pt(&last.m);
        gm.fails.clear();
        for pr in gm.properties() {
            if pr.name == name {
                let _ = (pr.condition)(&gm, last);
            }
        }
        let mut detail: Vec<String> = gm.fails.iter().map(|e| format!("{}: {}", e.key(), e.value())).collect();
        detail.sort();
        let detail = detail.join(" | ");
        let key = format!("E1|{name}|{}|{}", seed_name, acts.iter().map(|a| a.to_string()).collect::<Vec<_>>().join(">"));
        ctx.violation(Viol {
            key,
            engine: "E1".into(),
            case: json!({"seed": seed_name, "actions": acts, "invariant": name}),
            expected: format!("class point ({}, {}) up to the (-x,-y) coset; invariant {name} holds", p.x, p.y),
            got: format!("{:?} coords {:?} {}", last.kind, hex_coords(&last.c), detail),
        });
    }
    // sample paths for the evidence: walk a few deterministic programs
    for (si, sd) in gm.seeds.iter().enumerate().take(3) {
        let mut st = St { depth: 0, kind: sd.val.kind(), c: sd.val.coords(), m: sd.m, bad: 0 };
        let mut acts = vec![];
        let mut av = vec![];
        for d in 0..depth {
            av.clear();
            gm.actions(&St { depth: 0, ..st.clone() }, &mut av);
            if av.is_empty() {
                break;
            }
            let a = av[(si * 37 + d as usize * 11 + 5) % av.len()];
            acts.push(gm.describe_act(&a));
            st = gm.step(&St { depth: 0, ..st.clone() }, a);
        }
        r.sample(&format!("E1/path{si}"), || json!({"seed": sd.name, "actions": acts, "final_coords": hex_coords(&st.c), "conforms": st.bad == 0}));
    }
}


/// E3 pass for C01 / C03: valid curve points solved for so that the ENCODER's inverse-square-root
/// argument has a structured 2-primary discrete log; each through four representatives
/// (Z = 1, the other coset member, Z = 3, Z = -1 of the twin).
pub fn structured_points(ctx: &Arc<Ctx>) {
    use rayon::prelude::*;
    let dc = Decaf::new();
    let f = dc.c.f.clone();
    let mut pts = crate::sqrtclass::encode_points(&dc, ctx.quick());
    let by_w = crate::sqrtclass::encode_points_by_w(&dc);
    ctx.report.set("structured_points_by_intermediate_w", json!(by_w.len()));
    pts.extend(by_w);
    let by_i = crate::sqrtclass::points_by_intermediate(&dc);
    ctx.report.set("structured_points_by_intermediate_x_y_u1_T", json!(by_i.len()));
    pts.extend(by_i.into_iter().map(|(p, _)| (p, 0u64)));
    let c01 = ctx.prop == "C01";
    if ctx.prop == "C08" {
        let idx: Vec<usize> = (0..pts.len()).collect();
        run_cases(
            ctx, "E3/points", false,
            idx.par_iter(),
            |&&pi| eval_point_c08(&dc, &pts[pi].0),
            |&&pi| ("structured-point".into(), json!({"x": pts[pi].0.x.to_string(), "y": pts[pi].0.y.to_string(), "rep": 0, "two_primary_log": 0})),
        );
        ctx.report.set("structured_points", json!({"points": pts.len(), "representatives_each": 4}));
        ctx.report.rule(format!("E3/points[{BUILD}]: {} valid curve points solved for structured intermediates; all pairs of 4 representatives (and their affine forms) must be ==, hash equally and encode equally", pts.len()));
        return;
    }
    let work: Vec<(usize, usize)> = (0..pts.len() * 4).map(|i| (i / 4, i % 4)).collect();
    run_cases(
        ctx, "E3/points", false,
        work.par_iter(),
        |&&(pi, rep)| eval_point(&dc, &pts[pi].0, rep, c01, pts[pi].1),
        |&&(pi, rep)| ("structured-point".into(), json!({"x": pts[pi].0.x.to_string(), "y": pts[pi].0.y.to_string(), "rep": rep, "two_primary_log": pts[pi].1})),
    );
    ctx.report.set("structured_points", json!({"points": pts.len(), "representatives_each": 4}));
    ctx.report.rule(format!("E3/points[{BUILD}]: {} valid curve points solved (cubic over Fq) so that the encoder's inverse-square-root argument has a structured 2-primary discrete log, x 4 representatives; encoding compared with encodeSpec / round trip", pts.len()));
    let _ = f;
}

pub fn eval_point(dc: &Decaf, p: &Pt, rep: usize, c01: bool, e: u64) -> Outcome {
    let f = dc.f();
    let one = BigUint::one();
    let scaled = |q: &Pt, lam: &BigUint| el_from_big(&f.mul(&q.x, lam), &f.mul(&q.y, lam), &f.red(lam), &f.mul(&f.mul(&q.x, &q.y), lam));
    let el = match rep {
        0 => scaled(p, &one),
        1 => scaled(&dc.c.other_rep(p), &one),
        2 => scaled(p, &u(3)),
        _ => scaled(&dc.c.other_rep(p), &f.neg(&one)),
    };
    let class = format!("point/rep{rep}/{}", if e % 2 == 0 { "even-log" } else { "odd-log" });
    let case = json!({"x": p.x.to_string(), "y": p.y.to_string(), "rep": rep, "two_primary_log": e});
    let enc = el.vartime_compress().0;
    if c01 {
        match Encoding(enc).vartime_decompress() {
            Ok(d) if d == el && d.vartime_compress().0 == enc => Outcome::ok(class),
            _ => Outcome::bad(class, Viol { key: "C01|structured-point|roundtrip".into(), engine: "E3/points".into(), case, expected: "decompress(compress(E)) == E and re-encodes identically".into(), got: hex::encode(enc) }),
        }
    } else {
        let want = dc.encode_spec_bytes(p).expect("valid point");
        if enc != want {
            return Outcome::bad(class, Viol { key: "C03|structured-point|spec-encoding".into(), engine: "E3/points".into(), case, expected: hex::encode(want), got: hex::encode(enc) });
        }
        Outcome::ok(class)
    }
}

pub fn replay_point(case: &Value, prop: &str) -> (bool, Value) {
    let dc = Decaf::new();
    let p = Pt { x: case["x"].as_str().unwrap_or("0").parse().unwrap_or_default(), y: case["y"].as_str().unwrap_or("0").parse().unwrap_or_default() };
    let o = if prop == "C08" { eval_point_c08(&dc, &p) } else { eval_point(&dc, &p, case["rep"].as_u64().unwrap_or(0) as usize, prop == "C01", case["two_primary_log"].as_u64().unwrap_or(0)) };
    match o.viol {
        Some(v) => (false, json!({"expected": v.expected, "got": v.got})),
        None => (true, json!({"class": o.class})),
    }
}

/// C08 on a structured point: its four representatives are pairwise equal, hash equally (both
/// types), encode equally; none is the identity
pub fn eval_point_c08(dc: &Decaf, p: &Pt) -> Outcome {
    let f = dc.f();
    let one = BigUint::one();
    let scaled = |q: &Pt, lam: &BigUint| el_from_big(&f.mul(&q.x, lam), &f.mul(&q.y, lam), &f.red(lam), &f.mul(&f.mul(&q.x, &q.y), lam));
    let tw = dc.c.other_rep(p);
    let reps = [scaled(p, &one), scaled(&tw, &one), scaled(p, &u(3)), scaled(&tw, &f.neg(&one))];
    let class = "point/eq-hash".to_string();
    let case = json!({"x": p.x.to_string(), "y": p.y.to_string(), "rep": 0, "two_primary_log": 0});
    let bad = |what: &str| Outcome::bad("point/eq-hash", Viol { key: format!("C08|structured-point|{what}"), engine: "E3/points".into(), case: case.clone(), expected: "all representatives of one element: ==, equal hashes, equal encodings; not the identity".into(), got: what.to_string() });
    let enc0 = reps[0].vartime_compress().0;
    for a in &reps {
        let is_id = p.x.is_zero();
        if a.is_identity() != is_id || (*a == Element::IDENTITY) != is_id || (Element::IDENTITY == *a) != is_id {
            return bad("identity predicates disagree with the element");
        }
        for b in &reps {
            if !(a == b) || a.vartime_compress().0 != enc0 {
                return bad("Element == / encoding");
            }
            #[cfg(feature = "ark")]
            {
                use ark_ec::CurveGroup;
                if h64(a) != h64(b) {
                    return bad("Element Hash");
                }
                let (aa, ab): (Affine, Affine) = (a.into_affine(), b.into_affine());
                if !(aa == ab) || h64(&aa) != h64(&ab) {
                    return bad("AffinePoint == / Hash");
                }
            }
        }
    }
    // coincidence partners: a DIFFERENT element W that shares one raw projective coordinate, or
    // the raw product X*Y / T, with a Z != 1 representative A of this element (what an equality
    // test built from too few coordinates, or from unscaled products, confuses). W is solved for.
    // (one structured point in eight: each partner costs a root finding and a validity check)
    if !p.x.is_zero() && (&p.x % 8u32).is_zero() {
        for a in [&reps[2], &reps[3]] {
            let c = coords_big(&el_coords(a));
            let cands: Vec<(u8, BigUint, &str)> = vec![
                (0, c[0].clone(), "x_W = X_A"), (1, c[1].clone(), "y_W = Y_A"), (2, f.mul(&c[0], &c[1]), "x_W*y_W = X_A*Y_A"), (2, c[3].clone(), "x_W*y_W = T_A"),
                (0, c[1].clone(), "x_W = Y_A"), (1, c[0].clone(), "y_W = X_A"),
            ];
            for (kind, t, what) in cands {
                for w in crate::sqrtclass::points_with(dc, kind, &t) {
                    if !dc.valid(&w) || dc.c.same_class(&w, p) {
                        continue;
                    }
                    let ew = el_from_big(&w.x, &w.y, &one, &f.mul(&w.x, &w.y));
                    if *a == ew || ew == *a || a.vartime_compress().0 == ew.vartime_compress().0 {
                        return Outcome::bad("point/eq-coincidence", Viol { key: format!("C08|coincidence-partner|{what}"), engine: "E3/points".into(), case: json!({"x": p.x.to_string(), "y": p.y.to_string(), "rep": 0, "two_primary_log": 0, "partner": {"x": w.x.to_string(), "y": w.y.to_string(), "relation": what}}), expected: "different elements compare unequal (both ways) and encode differently".into(), got: "== or equal encodings".into() });
                    }
                }
            }
        }
    }
    Outcome::ok(class)
}
