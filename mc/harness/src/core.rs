//! Shared machinery: run context, report/evidence accumulation, violation + known-finding
//! handling, replay files, the flat exhaustive enumerator (E3) with watchdog.
use dashmap::{DashMap, DashSet};
use rayon::prelude::*;
use serde::Serialize;
use serde_json::{json, Map, Value};
use std::collections::BTreeMap;
use std::hash::{Hash, Hasher};
use std::panic::{catch_unwind, AssertUnwindSafe};
use std::path::PathBuf;
use std::sync::atomic::{AtomicBool, AtomicU64, Ordering};
use std::sync::{Arc, Mutex};
use std::time::{Duration, Instant};

#[cfg(feature = "ark")]
pub const BUILD: &str = "ark";
#[cfg(all(feature = "min", not(feature = "ark")))]
pub const BUILD: &str = "min";

#[derive(Clone, Copy, PartialEq, Eq, Debug)]
pub enum Tier {
    Quick,
    Thorough,
}

#[derive(Clone, Debug, serde::Deserialize)]
pub struct Known {
    pub property: String,
    pub key: String,
    pub status: String, // "open" | "fixed"
    #[serde(default)]
    pub description: String,
}

#[derive(Clone, Debug, Serialize, serde::Deserialize)]
pub struct Viol {
    /// identity of the finding: (what fails, where) -- matched against known_findings.json
    pub key: String,
    pub engine: String,
    /// the replayable case (input, action list, history, ...)
    pub case: Value,
    pub expected: String,
    pub got: String,
}

pub struct Report {
    pub start: Instant,
    pub evaluations: AtomicU64,
    pub nontrivial_keys: DashSet<u64>,
    pub nontrivial_capped: AtomicBool,
    pub classes: DashMap<String, u64>,
    pub samples: Mutex<BTreeMap<String, Value>>,
    pub viols: Mutex<Vec<Viol>>,
    pub viol_keys: DashSet<String>,
    pub known_hit: DashSet<String>,
    pub states: AtomicU64,
    pub distinct_extra: AtomicU64,
    pub transitions: AtomicU64,
    pub traces: AtomicU64,
    pub extra: Mutex<Map<String, Value>>,
    pub exhaustive: AtomicBool,
    pub rules: Mutex<Vec<String>>,
    pub assumptions: Mutex<Vec<String>>,
    pub machinery_errors: Mutex<Vec<String>>,
}

pub struct Ctx {
    pub prop: String,
    pub tier: Tier,
    pub seed: u64,
    pub replay_dir: PathBuf,
    pub out: Option<PathBuf>,
    pub known: Vec<Known>,
    pub report: Report,
}

const NONTRIVIAL_CAP: usize = 120_000_000;
const MAX_REPLAYS: usize = 12;

pub fn h64<T: Hash + ?Sized>(t: &T) -> u64 {
    // fixed-key hasher: deterministic across runs
    let mut h = std::collections::hash_map::DefaultHasher::new();
    t.hash(&mut h);
    h.finish()
}

/// Result of evaluating one case
pub struct Outcome {
    /// control class label (the finite abstraction the case falls in)
    pub class: String,
    /// non-trivial by the check's rule
    pub nontrivial: bool,
    pub viol: Option<Viol>,
}
impl Outcome {
    pub fn ok(class: impl Into<String>) -> Self {
        Outcome { class: class.into(), nontrivial: true, viol: None }
    }
    pub fn trivial(class: impl Into<String>) -> Self {
        Outcome { class: class.into(), nontrivial: false, viol: None }
    }
    pub fn bad(class: impl Into<String>, v: Viol) -> Self {
        Outcome { class: class.into(), nontrivial: true, viol: Some(v) }
    }
}

impl Report {
    pub fn new() -> Self {
        Report {
            start: Instant::now(),
            evaluations: AtomicU64::new(0),
            nontrivial_keys: DashSet::new(),
            nontrivial_capped: AtomicBool::new(false),
            classes: DashMap::new(),
            samples: Mutex::new(BTreeMap::new()),
            viols: Mutex::new(vec![]),
            viol_keys: DashSet::new(),
            known_hit: DashSet::new(),
            states: AtomicU64::new(0),
            distinct_extra: AtomicU64::new(0),
            transitions: AtomicU64::new(0),
            traces: AtomicU64::new(0),
            extra: Mutex::new(Map::new()),
            exhaustive: AtomicBool::new(true),
            rules: Mutex::new(vec![]),
            assumptions: Mutex::new(vec![]),
            machinery_errors: Mutex::new(vec![]),
        }
    }
    pub fn rule(&self, s: impl Into<String>) {
        self.rules.lock().unwrap().push(s.into());
    }
    pub fn assume(&self, s: impl Into<String>) {
        let s = s.into();
        let mut a = self.assumptions.lock().unwrap();
        if !a.contains(&s) {
            a.push(s);
        }
    }
    pub fn set(&self, k: &str, v: Value) {
        self.extra.lock().unwrap().insert(k.to_string(), v);
    }
    pub fn add_to(&self, k: &str, n: u64) {
        let mut e = self.extra.lock().unwrap();
        let cur = e.get(k).and_then(|v| v.as_u64()).unwrap_or(0);
        e.insert(k.to_string(), json!(cur + n));
    }
    pub fn class(&self, c: &str) {
        *self.classes.entry(c.to_string()).or_insert(0) += 1;
    }
    pub fn sample(&self, class: &str, v: impl FnOnce() -> Value) {
        let mut s = self.samples.lock().unwrap();
        if s.len() < 40 && !s.contains_key(class) {
            s.insert(class.to_string(), v());
        }
    }
    pub fn note_nontrivial(&self, key: u64) {
        if self.nontrivial_capped.load(Ordering::Relaxed) {
            return;
        }
        if self.nontrivial_keys.len() >= NONTRIVIAL_CAP {
            self.nontrivial_capped.store(true, Ordering::Relaxed);
            return;
        }
        self.nontrivial_keys.insert(key);
    }
    pub fn machinery_error(&self, s: impl Into<String>) {
        let s = s.into();
        eprintln!("MACHINERY-ERROR: {s}");
        self.machinery_errors.lock().unwrap().push(s);
    }
}

impl Ctx {
    pub fn quick(&self) -> bool {
        self.tier == Tier::Quick
    }
    /// pick by tier
    pub fn t<T>(&self, q: T, th: T) -> T {
        if self.quick() {
            q
        } else {
            th
        }
    }

    /// Record a violation: known finding -> KNOWN-FINDING line (exit code unaffected);
    /// otherwise replay file + VIOLATION line.
    pub fn violation(&self, v: Viol) {
        for k in &self.known {
            if k.property == self.prop && k.status == "open" && k.key == v.key {
                if self.report.known_hit.insert(v.key.clone()) {
                    println!("KNOWN-FINDING: property={} {} -- {}", self.prop, v.key, k.description);
                }
                return;
            }
        }
        if !self.report.viol_keys.insert(v.key.clone()) {
            return;
        }
        let mut vs = self.report.viols.lock().unwrap();
        let n = vs.len();
        if n < MAX_REPLAYS {
            let path = self.replay_dir.join(format!("{}-{}-{}.json", self.prop, BUILD, n));
            let doc = json!({
                "property": self.prop, "build": BUILD, "engine": v.engine, "key": v.key,
                "case": v.case, "expected": v.expected, "got": v.got,
            });
            let _ = std::fs::create_dir_all(&self.replay_dir);
            std::fs::write(&path, serde_json::to_string_pretty(&doc).unwrap()).expect("write replay");
            println!("VIOLATION property={} replay={}", self.prop, path.display());
            println!("  key: {}\n  expected: {}\n  got: {}", v.key, v.expected, v.got);
        }
        vs.push(v);
    }

    pub fn n_violations(&self) -> usize {
        self.report.viols.lock().unwrap().len()
    }

    /// write the partial evidence of this binary's run
    pub fn finish(&self, level: &str) -> i32 {
        let r = &self.report;
        let classes: BTreeMap<String, u64> = r.classes.iter().map(|e| (e.key().clone(), *e.value())).collect();
        let samples: Vec<Value> = r.samples.lock().unwrap().iter().map(|(k, v)| json!({"class": k, "case": v})).collect();
        let nviol = self.n_violations();
        let merrs = r.machinery_errors.lock().unwrap().clone();
        let doc = json!({
            "property_id": self.prop,
            "build": BUILD,
            "tier": if self.quick() {"quick"} else {"thorough"},
            "seed": self.seed,
            "level": level,
            "evaluations": r.evaluations.load(Ordering::Relaxed),
            "distinct_nontrivial": r.nontrivial_keys.len() as u64 + r.distinct_extra.load(Ordering::Relaxed),
            "distinct_nontrivial_capped": r.nontrivial_capped.load(Ordering::Relaxed),
            "control_classes": classes,
            "samples": samples,
            "states": r.states.load(Ordering::Relaxed),
            "transitions": r.transitions.load(Ordering::Relaxed),
            "traces_validated_against_impl": r.traces.load(Ordering::Relaxed),
            "exhaustive": r.exhaustive.load(Ordering::Relaxed),
            "rules": *r.rules.lock().unwrap(),
            "assumptions": *r.assumptions.lock().unwrap(),
            "extra": Value::Object(r.extra.lock().unwrap().clone()),
            "violations": nviol,
            "known_findings_hit": r.known_hit.iter().map(|k| k.clone()).collect::<Vec<_>>(),
            "machinery_errors": merrs,
            "wall_s": r.start.elapsed().as_secs_f64(),
        });
        if let Some(out) = &self.out {
            std::fs::write(out, serde_json::to_string_pretty(&doc).unwrap()).expect("write partial evidence");
        }
        println!(
            "[{}:{}:{}] evaluations={} states={} transitions={} classes={} violations={} known={} wall={:.1}s",
            self.prop, BUILD, if self.quick() {"quick"} else {"thorough"},
            r.evaluations.load(Ordering::Relaxed), r.states.load(Ordering::Relaxed),
            r.transitions.load(Ordering::Relaxed), r.classes.len(), nviol, r.known_hit.len(),
            r.start.elapsed().as_secs_f64()
        );
        if !merrs.is_empty() {
            2
        } else if nviol > 0 {
            1
        } else {
            0
        }
    }
}

// ---------------------------------------------------------------------------------------------
// panic capture

thread_local! {
    static LAST_PANIC: std::cell::RefCell<String> = std::cell::RefCell::new(String::new());
}
pub fn install_quiet_panic_hook() {
    std::panic::set_hook(Box::new(|info| {
        let msg = format!("{info}");
        LAST_PANIC.with(|p| *p.borrow_mut() = msg);
    }));
}
/// run `f`, turning a panic into Err(message)
pub fn guarded<T>(f: impl FnOnce() -> T) -> Result<T, String> {
    match catch_unwind(AssertUnwindSafe(f)) {
        Ok(v) => Ok(v),
        Err(_) => Err(LAST_PANIC.with(|p| {
            let s = p.borrow().clone();
            let s = s.replace('\n', " ");
            if s.len() > 300 { s[..300].to_string() } else { s }
        })),
    }
}

// ---------------------------------------------------------------------------------------------
// watchdog: every worker publishes the case it is evaluating; a monitor turns a case that runs
// for longer than the limit into a violation (non-termination) with that case as replay.

pub struct Slot {
    pub start_ms: AtomicU64, // 0 = idle
    pub desc: Mutex<Option<(String, Value)>>, // (key, case)
}
pub struct Watchdog {
    slots: Arc<Mutex<Vec<Arc<Slot>>>>,
    stop: Arc<AtomicBool>,
    epoch: Instant,
}
thread_local! {
    static MY_SLOT: std::cell::RefCell<Option<Arc<Slot>>> = std::cell::RefCell::new(None);
}
pub const WATCHDOG_LIMIT: Duration = Duration::from_secs(120);

impl Watchdog {
    /// `on_timeout(key, case)` is called from the monitor thread; it must not return normally
    /// if the process should stop.
    pub fn start(on_timeout: impl Fn(String, Value) + Send + 'static) -> Arc<Watchdog> {
        let wd = Arc::new(Watchdog { slots: Arc::new(Mutex::new(vec![])), stop: Arc::new(AtomicBool::new(false)), epoch: Instant::now() });
        let w2 = wd.clone();
        std::thread::spawn(move || loop {
            std::thread::sleep(Duration::from_millis(500));
            if w2.stop.load(Ordering::Relaxed) {
                return;
            }
            let now = w2.epoch.elapsed().as_millis() as u64;
            let slots = w2.slots.lock().unwrap().clone();
            for s in slots {
                let st = s.start_ms.load(Ordering::Relaxed);
                if st != 0 && now.saturating_sub(st) > WATCHDOG_LIMIT.as_millis() as u64 {
                    let d = s.desc.lock().unwrap().clone();
                    let (k, c) = d.unwrap_or(("undescribed-case".into(), Value::Null));
                    on_timeout(k, c);
                }
            }
        });
        wd
    }
    pub fn stop(&self) {
        self.stop.store(true, Ordering::Relaxed);
    }
    fn my_slot(&self) -> Arc<Slot> {
        MY_SLOT.with(|m| {
            let mut m = m.borrow_mut();
            if m.is_none() {
                let s = Arc::new(Slot { start_ms: AtomicU64::new(0), desc: Mutex::new(None) });
                self.slots.lock().unwrap().push(s.clone());
                *m = Some(s);
            }
            m.as_ref().unwrap().clone()
        })
    }
    pub fn enter(&self, desc: Option<(String, Value)>) {
        let s = self.my_slot();
        *s.desc.lock().unwrap() = desc;
        s.start_ms.store(self.epoch.elapsed().as_millis() as u64 + 1, Ordering::Relaxed);
    }
    pub fn leave(&self) {
        let s = self.my_slot();
        s.start_ms.store(0, Ordering::Relaxed);
    }
}

// ---------------------------------------------------------------------------------------------
// E3: flat exhaustive enumerator

static WD: std::sync::OnceLock<Arc<Watchdog>> = std::sync::OnceLock::new();
static WD_ENGINE: Mutex<String> = Mutex::new(String::new());
/// one watchdog per process (worker slots are thread-local and register with it once)
pub fn global_watchdog(ctx: &Arc<Ctx>) -> Arc<Watchdog> {
    WD.get_or_init(|| {
        let c2 = ctx.clone();
        Watchdog::start(move |key, case| {
            let eng = WD_ENGINE.lock().unwrap().clone();
            c2.violation(Viol {
                key: format!("timeout|{key}"),
                engine: eng,
                case,
                expected: format!("terminates (limit {}s)", WATCHDOG_LIMIT.as_secs()),
                got: "still running: non-termination / unbounded loop".into(),
            });
            c2.report.exhaustive.store(false, Ordering::Relaxed);
            let code = c2.finish("exploration");
            std::process::exit(if code == 0 { 2 } else { code });
        })
    })
    .clone()
}

/// Enumerate `cases` completely (in parallel); evaluate each under catch_unwind.
/// `describe(case)` gives (finding-key, replayable JSON); it is called for samples, panics
/// and -- when `watch` is set -- before every evaluation so that the watchdog can report it.
/// Distinctness of non-trivial cases is measured on a 64-bit hash of the case itself.
pub fn run_cases<C, I, F, D>(ctx: &Arc<Ctx>, engine: &str, watch: bool, cases: I, eval: F, describe: D)
where
    C: Send + Sync + Hash,
    I: ParallelIterator<Item = C>,
    F: Fn(&C) -> Outcome + Sync + Send,
    D: Fn(&C) -> (String, Value) + Sync + Send,
{
    let wd = global_watchdog(ctx);
    *WD_ENGINE.lock().unwrap() = engine.to_string();
    let r = &ctx.report;
    #[derive(Default)]
    struct Local {
        n: u64,
        classes: std::collections::HashMap<String, u64>,
    }
    let eh = h64(engine);
    cases
        .fold(Local::default, |mut loc, case| {
            if watch {
                wd.enter(Some(describe(&case)));
            }
            let res = guarded(|| eval(&case));
            if watch {
                wd.leave();
            }
            loc.n += 1;
            let out = match res {
                Ok(o) => o,
                Err(msg) => {
                    let (key, cj) = describe(&case);
                    Outcome::bad(
                        "panic",
                        Viol { key: format!("panic|{key}"), engine: engine.to_string(), case: cj, expected: "no panic".into(), got: format!("panic: {msg}") },
                    )
                }
            };
            let first = !loc.classes.contains_key(&out.class);
            *loc.classes.entry(out.class.clone()).or_insert(0) += 1;
            if out.nontrivial {
                r.note_nontrivial(h64(&(eh, &case)));
                if first {
                    r.sample(&format!("{engine}/{}", out.class), || describe(&case).1);
                }
            }
            if let Some(v) = out.viol {
                ctx.violation(v);
            }
            loc
        })
        .for_each(|loc| {
            r.evaluations.fetch_add(loc.n, Ordering::Relaxed);
            for (k, v) in loc.classes {
                *r.classes.entry(k).or_insert(0) += v;
            }
        });
}

pub fn hex32(b: &[u8]) -> String {
    hex::encode(b)
}
