//! C09 -- square-root-of-ratio four-case contract on every input shape.
//! Control abstraction: Fq* = <g> x (odd part), g = zeta^M of order 2^47. The table algorithm's
//! lookups are functions of the base-256 digits of e, where num/den = g^e * (odd-order element).
//! Inputs are BUILT from e in reference arithmetic, so the expected flag (e even) is known by
//! construction; y is checked by y^2 * den == num (resp. zeta * num) in reference arithmetic.
use crate::core::*;
use crate::sut::*;
use num_bigint::BigUint;
use num_traits::{One, Zero};
use rayon::prelude::*;
use refmodel::fld::{to32, u};
use refmodel::spec::Decaf;
use serde_json::{json, Value};
use std::sync::Arc;

pub fn sqrt_ratio(num: &Fq, den: &Fq) -> (bool, Fq) {
    #[cfg(feature = "ark")]
    {
        Fq::sqrt_ratio_zeta(num, den)
    }
    #[cfg(not(feature = "ark"))]
    {
        Fq::non_arkworks_sqrt_ratio_zeta(num, den)
    }
}

fn mkv(key: &str, num: &BigUint, den: &BigUint, e: Option<u64>, expected: String, got: String) -> Viol {
    Viol { key: format!("C09|{key}"), engine: "E3/C09".into(), case: json!({"num": hex::encode(to32(num)), "den": hex::encode(to32(den)), "two_primary_log": e}), expected, got }
}

/// `square`: Some(b) when the squareness of num/den is known by construction, None -> Euler
pub fn eval(dc: &Decaf, num: &BigUint, den: &BigUint, square: Option<bool>, e: Option<u64>, class: String) -> Outcome {
    let f = dc.f();
    let (flag, y) = sqrt_ratio(&fq(num), &fq(den));
    let y = fq_big(&y);
    if num.is_zero() {
        if !(flag && y.is_zero()) {
            return Outcome::bad(class, mkv("num=0", num, den, e, "(true, 0)".into(), format!("({flag}, {y})")));
        }
        return Outcome::ok(class);
    }
    if den.is_zero() {
        if flag || !y.is_zero() {
            return Outcome::bad(class, mkv("den=0", num, den, e, "(false, 0)".into(), format!("({flag}, {y})")));
        }
        return Outcome::ok(class);
    }
    let sq = square.unwrap_or_else(|| f.legendre(&f.div(num, den)) == 1);
    if flag != sq {
        return Outcome::bad(class, mkv("flag", num, den, e, format!("was_square = {sq}"), format!("was_square = {flag}")));
    }
    let lhs = f.mul(&f.sqr(&y), den);
    let rhs = if sq { f.red(num) } else { f.mul(&dc.zeta, num) };
    if lhs != rhs {
        return Outcome::bad(class, mkv("root", num, den, e, format!("y^2*den == {}", if sq { "num" } else { "zeta*num" }), format!("y = {y}")));
    }
    Outcome::ok(class)
}

#[cfg(feature = "ark")]
pub fn eval_field_sqrt(dc: &Decaf, x: &BigUint, square: bool, e: Option<u64>, class: String) -> Outcome {
    use ark_ff::{Field, LegendreSymbol};
    let f = dc.f();
    let fx = fq(x);
    let l = fx.legendre();
    let want_l = if x.is_zero() { LegendreSymbol::Zero } else if square { LegendreSymbol::QuadraticResidue } else { LegendreSymbol::QuadraticNonResidue };
    if l != want_l {
        return Outcome::bad(class, mkv("legendre", x, &BigUint::one(), e, format!("{want_l:?}"), format!("{l:?}")));
    }
    match (fx.sqrt(), square || x.is_zero()) {
        (Some(r), true) => {
            if f.sqr(&fq_big(&r)) != *x {
                return Outcome::bad(class, mkv("Field::sqrt", x, &BigUint::one(), e, "r^2 == x".into(), format!("r = {}", fq_big(&r))));
            }
        }
        (None, false) => {}
        (got, _) => return Outcome::bad(class, mkv("Field::sqrt", x, &BigUint::one(), e, format!("is_some = {}", square), format!("{:?}", got.map(|r| fq_big(&r).to_string())))),
    }
    Outcome::ok(class)
}

/// gamma with (gamma * odd-order)^M = (zeta^M)^-1: see `run`
pub fn two_sylow_base(f: &refmodel::fld::Fld, zeta: &BigUint) -> BigUint {
    let two47 = BigUint::one() << 47;
    let m: BigUint = &f.t % &two47;
    let minv = m.modpow(&((BigUint::one() << 46) - 1u32), &two47);
    assert!((&m * &minv) % &two47 == BigUint::one());
    let g0 = f.pow(zeta, &f.t);
    let gam = f.pow(&g0, &(&two47 - &minv));
    // binding check: gamma^M * zeta^M == 1
    assert!(f.mul(&f.pow(&gam, &f.t), &g0) == BigUint::one());
    gam
}

/// exponents e (= the table algorithm's t, see `two_sylow_base`) with their class label
pub fn exponents(quick: bool) -> Vec<(u64, &'static str)> {
    let mut v: Vec<(u64, &'static str)> = vec![(0, "e=0")];
    // one non-zero base-256 digit, every value
    for j in 0..6u32 {
        let maxd: u64 = if j == 5 { 127 } else { 255 };
        for d in 1..=maxd {
            v.push((d << (8 * j), "one-digit"));
        }
    }
    // one non-zero WINDOW of the 7+8+8+8+8+8 split in which t is determined, every value
    for d in 1..=127u64 {
        v.push((d, "one-window"));
    }
    for j in 0..5u32 {
        for d in 1..=255u64 {
            v.push((d << (7 + 8 * j), "one-window"));
        }
    }
    // one non-zero base-256 digit of the HALVED t' = (t+1)>>1 that indexes the result tables
    for j in 0..6u32 {
        let maxd: u64 = if j == 5 { 64 } else { 255 };
        for d in 1..=maxd {
            let e = (d << (8 * j)) << 1;
            if e < (1u64 << 47) {
                v.push((e, "halved-one-digit"));
                v.push((e - 1, "halved-one-digit"));
            }
        }
    }
    // two non-zero digits
    let pick: Vec<u64> = if quick { (1..=255u64).filter(|d| d % 8 == 0 || [1, 2, 3, 127, 129, 253, 254, 255].contains(d)).collect() } else { (1..=255).collect() };
    for j in 0..6u32 {
        for k in (j + 1)..6u32 {
            if quick && k != j + 1 && false {
                continue;
            }
            for &a in &pick {
                for &b in &pick {
                    if k == 5 && b > 127 {
                        continue;
                    }
                    v.push(((a << (8 * j)) | (b << (8 * k)), "two-digits"));
                }
            }
        }
    }
    // window boundaries of the 7+8+8+8+8+8 split, all-ones, roots of unity
    v.push(((1u64 << 47) - 1, "all-ones"));
    v.push(((1u64 << 47) - 2, "all-ones-even"));
    for k in 0..47u32 {
        v.push((1u64 << k, "root-of-unity"));
        v.push(((1u64 << k) - 1, "low-ones"));
        v.push((((1u64 << 47) - 1) ^ ((1u64 << k) - 1), "high-ones"));
    }
    for d in [0x55u64, 0xAA, 0x01, 0x80, 0xFF] {
        let mut e = 0u64;
        for j in 0..6 {
            e |= d << (8 * j);
        }
        v.push((e & ((1 << 47) - 1), "repeated-digit"));
    }
    v.sort();
    v.dedup_by_key(|x| x.0);
    v
}

pub fn run(ctx: &Arc<Ctx>) {
    let dc = Decaf::new();
    let f = dc.f().clone();
    let q = f.p.clone();
    // zeta^M generates the 2-Sylow subgroup (order 2^47). The table algorithm projects the ratio
    // to x5 = ratio^M and then determines t with x5 * (zeta^M)^t = 1, window by window; every table
    // index is a digit of (a prefix of) t. To make the algorithm's t EQUAL the enumerated e, the
    // base is gamma with gamma^M = (zeta^M)^-1, i.e. gamma = (zeta^M)^(-M^-1 mod 2^47):
    // ratio = gamma^e * h  =>  x5 = (zeta^M)^-e  =>  t = e.   tables gamma^(d*256^j)
    assert!(f.s == 47);
    let g = two_sylow_base(&f, &dc.zeta);
    let mut tabs: Vec<Vec<BigUint>> = vec![];
    let mut base = g.clone();
    for _ in 0..6 {
        let mut t = vec![BigUint::one()];
        for d in 1..256 {
            let prev: &BigUint = &t[d - 1];
            t.push(f.mul(prev, &base));
        }
        tabs.push(t);
        for _ in 0..8 {
            base = f.sqr(&base);
        }
    }
    let g_pow = |e: u64| -> BigUint {
        let mut acc = BigUint::one();
        for j in 0..6 {
            let d = ((e >> (8 * j)) & 0xff) as usize;
            if d != 0 {
                acc = f.mul(&acc, &tabs[j][d]);
            }
        }
        acc
    };
    // odd-order multipliers h = c^(2^47)
    let odd: Vec<BigUint> = {
        let mut v = vec![BigUint::one()];
        for c in [3u64, 0x1234567] {
            v.push(f.pow(&u(c), &(BigUint::one() << 47)));
        }
        if !cfg!(feature = "ark") || ctx.quick() {
            v.truncate(2);
        }
        v
    };
    let dens: Vec<BigUint> = {
        let mut v = vec![BigUint::one(), u(2), dc.zeta.clone(), f.pow(&u(0xdeadbeef), &u(0x10001))];
        if !cfg!(feature = "ark") {
            v.truncate(if ctx.quick() { 1 } else { 2 });
        } else if ctx.quick() {
            v.truncate(2);
        }
        v
    };
    let exps = exponents(ctx.quick());
    let (ne, no, nd) = (exps.len(), odd.len(), dens.len());
    run_cases(
        ctx, "E3/C09-digits", false,
        (0..ne * no * nd).into_par_iter().map(|i| (i / (no * nd), (i / nd) % no, i % nd)),
        |&(ei, oi, di)| {
            let (e, lab) = exps[ei];
            let ratio = f.mul(&g_pow(e), &odd[oi]);
            let den = &dens[di];
            let num = f.mul(&ratio, den);
            eval(&dc, &num, den, Some(e % 2 == 0), Some(e), format!("{lab}/{}", if e % 2 == 0 { "square" } else { "nonsquare" }))
        },
        |&(ei, oi, di)| {
            let (e, _) = exps[ei];
            let ratio = f.mul(&g_pow(e), &odd[oi]);
            ("digits".into(), json!({"num": hex::encode(to32(&f.mul(&ratio, &dens[di]))), "den": hex::encode(to32(&dens[di])), "two_primary_log": e}))
        },
    );
    #[cfg(feature = "ark")]
    run_cases(
        ctx, "E3/C09-field-sqrt", false,
        (0..ne * no).into_par_iter().map(|i| (i / no, i % no)),
        |&(ei, oi)| {
            let (e, lab) = exps[ei];
            let x = f.mul(&g_pow(e), &odd[oi]);
            eval_field_sqrt(&dc, &x, e % 2 == 0, Some(e), format!("Field::sqrt/{lab}"))
        },
        |&(ei, oi)| ("field-sqrt".into(), json!({"num": hex::encode(to32(&f.mul(&g_pow(exps[ei].0), &odd[oi]))), "den": hex::encode(to32(&BigUint::one())), "two_primary_log": exps[ei].0, "field_sqrt": true})),
    );
    // zero operands, small ratios, zeta^k, values around q -- squareness by Euler
    let mut misc: Vec<(BigUint, BigUint, &'static str)> = vec![];
    let vals: Vec<BigUint> = {
        let mut v: Vec<BigUint> = (0..40u64).map(u).collect();
        for i in 1..20u32 {
            v.push(&q - i);
        }
        let mut z = BigUint::one();
        for _ in 0..ctx.t(64, 256) {
            v.push(z.clone());
            z = f.mul(&z, &dc.zeta);
        }
        v.push((&q - 1u32) >> 1);
        v
    };
    for a in &vals {
        for b in vals.iter().take(60) {
            let lab = if a.is_zero() && b.is_zero() { "0/0" } else if a.is_zero() { "num=0" } else if b.is_zero() { "den=0" } else { "misc" };
            misc.push((a.clone(), b.clone(), lab));
        }
    }
    // unstructured members: pseudo-random (num, den) pairs, squareness judged by Euler
    {
        let n = ctx.t(1usize << 13, 1 << 16);
        let a = crate::fields::prand(0x09, n, &q);
        let b = crate::fields::prand(0x0909, n, &q);
        for (x, y) in a.into_iter().zip(b.into_iter()) {
            misc.push((x, y, "pseudo-random"));
        }
    }
    run_cases(
        ctx, "E3/C09-misc", false,
        misc.par_iter(),
        |(a, b, lab)| eval(&dc, a, b, None, None, lab.to_string()),
        |(a, b, _)| ("misc".into(), json!({"num": hex::encode(to32(a)), "den": hex::encode(to32(b))})),
    );
    let r = &ctx.report;
    r.set("C09_domain", json!({"two_primary_exponents": ne, "odd_order_multipliers": no, "denominators": nd, "misc_pairs": misc.len()}));
    r.rule(format!("E3/C09[{BUILD}]: ratio = g^e * h with e ranging over every value of every base-256 digit of the 47-bit discrete log (<= {} non-zero digits{}), all 2^k, low/high ones, repeated digits ({ne} exponents) x {no} odd-order multipliers x {nd} factorisations num = ratio*den; expected flag = (e even) by construction; plus {} zero/small/zeta^k pairs judged by Euler; {}; distinct by (num, den)",
        2, if ctx.quick() { ", adjacent digit pairs over {1,2,127,128,254,255}" } else { ", all pairs of digits, all values" }, misc.len(),
        if cfg!(feature = "ark") { "sqrt_ratio_zeta (table-driven), Field::sqrt and legendre" } else { "non_arkworks_sqrt_ratio_zeta (Tonelli-Shanks)" }));
}

pub fn replay(case: &Value) -> (bool, Value) {
    let dc = Decaf::new();
    let hx = |v: &Value| BigUint::from_bytes_le(&hex::decode(v.as_str().unwrap_or("")).unwrap_or_default());
    let (num, den) = (hx(&case["num"]), hx(&case["den"]));
    #[cfg(feature = "ark")]
    if case["field_sqrt"] == json!(true) {
        let sq = dc.f().legendre(&num) == 1;
        let o = eval_field_sqrt(&dc, &num, sq, None, "replay".into());
        return match o.viol {
            Some(v) => (false, json!({"expected": v.expected, "got": v.got})),
            None => (true, json!({"result": "matches Euler / reference"})),
        };
    }
    let o = eval(&dc, &num, &den, None, None, "replay".into());
    match o.viol {
        Some(v) => (false, json!({"expected": v.expected, "got": v.got})),
        None => (true, json!({"result": "contract holds"})),
    }
}
