#!/bin/sh
# Offline build of both harness binaries against /repo's working tree with hooks enabled.
set -e
cd "$(dirname "$0")/mc"
export CARGO_NET_OFFLINE=true RUSTFLAGS="--cfg decaf377_verif"
cargo build --release --offline --features ark --bin mc-ark --target-dir target-ark &
P1=$!
cargo build --release --offline --features min --bin mc-min --target-dir target-min &
P2=$!
wait $P1
wait $P2
echo "setup: mc-ark and mc-min built"
