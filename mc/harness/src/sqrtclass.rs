//! Inputs to the HIGH-LEVEL functions (Elligator r0, encodings s, curve points) solved for so
//! that the argument of the inner inverse-square-root call falls in a chosen control class of
//! the table-driven algorithm (2-primary discrete log e with a structured digit pattern).
//! The equations are solved in the reference (polynomial root finding over Fq), so the oracle
//! side stays independent of the code under test.
use crate::c09;
use num_bigint::BigUint;
use num_traits::{One, Zero};
use rayon::prelude::*;
use refmodel::curve::Pt;
use refmodel::fld::u;
use refmodel::poly::{self, Poly};
use refmodel::spec::Decaf;

/// targets for the inner argument x of sqrt_ratio_zeta(1, x): 1/x = g^e * h, i.e. x = (g^e h)^-1
pub fn targets(dc: &Decaf, quick: bool) -> Vec<(BigUint, u64)> {
    let f = dc.f();
    // base gamma with gamma^M = (zeta^M)^-1, so that for ratio = gamma^e * h the table algorithm's
    // t equals e (c09::two_sylow_base); the callers pass x = 1/ratio as the denominator
    let g = c09::two_sylow_base(f, &dc.zeta);
    // (exponent, number of odd-order multipliers): a single target value has a preimage under
    // the rational maps solved below only with probability ~1/3, so the few SPECIAL exponents
    // (all-ones, roots of unity, low/high ones, repeated digits, e = 0) get several multipliers
    let exps: Vec<(u64, usize)> = {
        let all = c09::exponents(quick);
        // one-digit patterns; from the two-digit family every 7th (quick) / every 3rd member
        let step = if quick { 7 } else { 3 };
        let mut k = 0usize;
        all.into_iter()
            .filter(|(_, lab)| { if *lab == "two-digits" { k += 1; k % step == 0 } else { true } })
            .map(|(e, lab)| (e, if ["two-digits", "one-digit", "one-window", "halved-one-digit"].contains(&lab) { 1 } else { 6 }))
            .collect()
    };
    let hs: Vec<BigUint> = [0x1234567u64, 0x2345671, 0x3456712, 0x4567123, 0x5671234, 0x6712345].iter().map(|b| f.pow(&u(*b), &(BigUint::one() << 47))).collect();
    exps.par_iter()
        .flat_map(|&(e, nh)| {
            let ge = f.pow(&g, &BigUint::from(e));
            hs[..nh].iter().map(|h| (f.inv(&f.mul(&ge, h)).unwrap(), e)).collect::<Vec<_>>()
        })
        .collect()
}

fn lin(c0: BigUint, c1: BigUint) -> Poly {
    vec![c0, c1]
}

/// r0 such that the Elligator inner argument num(r)*den(r), r = zeta r0^2, equals a target
pub fn elligator_r0s(dc: &Decaf, quick: bool) -> Vec<(BigUint, u64)> {
    let f = dc.f();
    let (a, d) = (&dc.c.a, &dc.c.d);
    let a2d = f.sub(a, &f.mul(&u(2), d));
    let dma = f.sub(d, a);
    // x(r) = (r + 1) * a2d * (d r - dma) * (dma r - d)
    let p1 = lin(BigUint::one(), BigUint::one());
    let p2 = lin(f.neg(&dma), d.clone());
    let p3 = lin(f.neg(d), dma.clone());
    let x = poly::scale(f, &poly::mul(f, &poly::mul(f, &p1, &p2), &p3), &a2d);
    let zi = f.inv(&dc.zeta).unwrap();
    targets(dc, quick)
        .par_iter()
        .flat_map(|(t, e)| {
            let eq = poly::sub(f, &x, &vec![t.clone()]);
            let mut out = vec![];
            for r in poly::roots(f, &eq) {
                if let Some(r0) = f.sqrt(&f.mul(&r, &zi)) {
                    debug_assert_eq!(poly::eval(f, &x, &f.mul(&dc.zeta, &f.sqr(&r0))), *t);
                    out.push((r0, *e));
                }
            }
            out
        })
        .collect()
}

/// canonical non-negative s whose decode argument u2*u1^2 equals a target (valid encodings when
/// e is even, "non-square" rejects when e is odd)
pub fn decode_ss(dc: &Decaf, quick: bool) -> Vec<(BigUint, u64)> {
    let f = dc.f();
    let d = &dc.c.d;
    // with w = s^2: u1 = 1 - w, u2 = u1^2 - 4 d w, arg = u2 * u1^2
    let u1 = lin(BigUint::one(), f.neg(&BigUint::one()));
    let u1sq = poly::mul(f, &u1, &u1);
    let u2 = poly::sub(f, &u1sq, &lin(BigUint::zero(), f.mul(&u(4), d)));
    let arg = poly::mul(f, &u2, &u1sq);
    targets(dc, quick)
        .par_iter()
        .flat_map(|(t, e)| {
            let eq = poly::sub(f, &arg, &vec![t.clone()]);
            let mut out = vec![];
            for w in poly::roots(f, &eq) {
                if let Some(s) = f.xsqrt(&w) {
                    out.push((s, *e));
                }
            }
            out
        })
        .collect()
}

/// valid curve points (in 2E) whose encode argument u1*(a-d)*X^2 (Z = 1) equals a target
pub fn encode_points(dc: &Decaf, quick: bool) -> Vec<(Pt, u64)> {
    let f = dc.f();
    let (a, d) = (&dc.c.a, &dc.c.d);
    let amd = f.sub(a, d);
    // with v = y^2: x^2 = (v - 1)/(1 + d v), arg = (a-d) x^4 (1 - v) = -(a-d)(v-1)^3/(1+dv)^2
    // => target (1 + d v)^2 + (a-d)(v-1)^3 = 0
    let one_dv = lin(BigUint::one(), d.clone());
    let vm1 = lin(f.neg(&BigUint::one()), BigUint::one());
    let cube = poly::scale(f, &poly::mul(f, &poly::mul(f, &vm1, &vm1), &vm1), &amd);
    let sq = poly::mul(f, &one_dv, &one_dv);
    targets(dc, quick)
        .par_iter()
        .flat_map(|(t, e)| {
            let eq = poly::add(f, &poly::scale(f, &sq, t), &cube);
            let mut out = vec![];
            for v in poly::roots(f, &eq) {
                let den = f.add(&BigUint::one(), &f.mul(d, &v));
                if den.is_zero() {
                    continue;
                }
                let x2 = f.div(&f.sub(&v, &BigUint::one()), &den);
                if let (Some(y), Some(x)) = (f.sqrt(&v), f.sqrt(&x2)) {
                    let p = Pt { x, y };
                    if dc.valid(&p) {
                        out.push((p, *e));
                    }
                }
            }
            out
        })
        .collect()
}

/// valid curve points whose encoder intermediate w = v*u_1 (the value fed to the first abs(),
/// w^2 = (1 - y^2)/(a - d)) is a boundary class of limb-wise comparison / negation with q
pub fn encode_points_by_w(dc: &Decaf) -> Vec<(Pt, u64)> {
    let f = dc.f();
    let (a, d) = (&dc.c.a, &dc.c.d);
    let amd = f.sub(a, d);
    let mut ws = crate::fields::cmp_family(&f.p, 32);
    ws.extend(crate::fields::neg_family_n(&f.p, 32, 96));
    ws.par_iter()
        .filter(|w| **w < f.p && !w.is_zero())
        .flat_map(|w| {
            let mut out = vec![];
            // y^2 = 1 - (a-d) w^2 ; x^2 = (y^2 - 1)/(1 + d y^2)
            let v = f.sub(&BigUint::one(), &f.mul(&amd, &f.sqr(w)));
            let den = f.add(&BigUint::one(), &f.mul(d, &v));
            if den.is_zero() {
                return out;
            }
            let x2 = f.div(&f.sub(&v, &BigUint::one()), &den);
            if let (Some(y), Some(x)) = (f.sqrt(&v), f.sqrt(&x2)) {
                let p = Pt { x, y };
                if dc.valid(&p) {
                    out.push((p, 0u64));
                }
            }
            out
        })
        .collect()
}

// ---------------------------------------------------------------------------------------------
// Intermediate-value targeting: inputs solved for so that a NAMED INTERMEDIATE of a high-level
// routine equals a member of `fields::target_family` (boundary classes of limb-wise comparison
// with q and with (q-1)/2, borrow-chain classes of negation, XOR-cancelling limb patterns,
// small values). Each relation below is a polynomial identity of the specification; it is solved
// in the reference.

fn point_from_v(dc: &Decaf, v: &BigUint) -> Vec<Pt> {
    let f = dc.f();
    let d = &dc.c.d;
    let den = f.add(&BigUint::one(), &f.mul(d, v));
    if den.is_zero() {
        return vec![];
    }
    let x2 = f.div(&f.sub(v, &BigUint::one()), &den);
    match (f.sqrt(v), f.sqrt(&x2)) {
        (Some(y), Some(x)) => vec![Pt { x: x.clone(), y: y.clone() }, Pt { x: f.neg(&x), y }],
        _ => vec![],
    }
}

/// target values for named intermediates: the boundary families of the field (`target_family`)
/// plus the CURVE CONSTANTS and their simple combinations (what a guard like `x == D - A`, written
/// against the wrong variable, compares with): {1, 2, a, d, a-d, a-2d, a+d, zeta} closed under
/// negation, inversion and pairwise product / quotient
pub fn targets_with_constants(dc: &Decaf) -> Vec<BigUint> {
    let f = dc.f();
    let (a, d) = (&dc.c.a, &dc.c.d);
    let base: Vec<BigUint> = vec![BigUint::one(), u(2), a.clone(), d.clone(), f.sub(a, d), f.sub(a, &f.mul(&u(2), d)), f.add(a, d), dc.zeta.clone(), f.mul(&u(4), d)];
    let mut v: Vec<BigUint> = vec![];
    for x in &base {
        for y in &base {
            let pr = f.mul(x, y);
            let qu = f.div(x, y);
            for t in [pr, qu] {
                v.push(f.neg(&t));
                v.push(t);
            }
        }
    }
    v.sort();
    v.dedup();
    v.retain(|x| !x.is_zero());
    let mut fam = crate::fields::target_family(&f.p, 32);
    fam.extend(v);
    fam.sort();
    fam.dedup();
    fam
}

/// r0 with one of {r, den, num, num*den, s} equal to a target (r = zeta r0^2)
pub fn elligator_by_intermediate(dc: &Decaf) -> Vec<(BigUint, &'static str)> {
    let f = dc.f();
    let (a, d) = (&dc.c.a, &dc.c.d);
    let a2d = f.sub(a, &f.mul(&u(2), d));
    let dma = f.sub(d, a);
    let p1 = lin(BigUint::one(), BigUint::one());
    let p2 = lin(f.neg(&dma), d.clone());
    let p3 = lin(f.neg(d), dma.clone());
    let den = poly::mul(f, &p2, &p3);
    let num = poly::scale(f, &p1, &a2d);
    let x = poly::mul(f, &num, &den);
    let rpoly: Poly = vec![BigUint::zero(), BigUint::one()];
    let zi = f.inv(&dc.zeta).unwrap();
    let fam = targets_with_constants(dc);
    fam.par_iter()
        .flat_map(|t| {
            let tc: Poly = vec![t.clone()];
            let t2 = f.sqr(t);
            let eqs: Vec<(&'static str, Poly)> = vec![
                ("r", poly::sub(f, &rpoly, &tc)),
                ("den", poly::sub(f, &den, &tc)),
                ("num", poly::sub(f, &num, &tc)),
                ("num*den", poly::sub(f, &x, &tc)),
                ("s (square branch)", poly::sub(f, &poly::scale(f, &den, &t2), &num)),
                ("s (non-square branch)", poly::sub(f, &poly::scale(f, &den, &t2), &poly::mul(f, &rpoly, &num))),
            ];
            let mut out = vec![];
            for (name, eq) in eqs {
                for r in poly::roots(f, &eq) {
                    if let Some(r0) = f.sqrt(&f.mul(&r, &zi)) {
                        out.push((r0, name));
                    }
                }
            }
            out
        })
        .collect()
}

/// canonical non-negative s with one of {s^2, u1, u2, u2*u1^2, the sign-check value 2 s u1 v}
/// equal to a target
pub fn decode_by_intermediate(dc: &Decaf) -> Vec<(BigUint, &'static str)> {
    let f = dc.f();
    let d = &dc.c.d;
    let one = BigUint::one();
    let spoly: Poly = vec![BigUint::zero(), one.clone()];
    let u1 = lin(one.clone(), f.neg(&one));
    let u1sq = poly::mul(f, &u1, &u1);
    let u2 = poly::sub(f, &u1sq, &lin(BigUint::zero(), f.mul(&u(4), d)));
    let arg = poly::mul(f, &u2, &u1sq);
    let four_s: Poly = vec![BigUint::zero(), u(4)];
    let fam = targets_with_constants(dc);
    fam.par_iter()
        .flat_map(|t| {
            let tc: Poly = vec![t.clone()];
            let t2 = f.sqr(t);
            let eqs: Vec<(&'static str, Poly)> = vec![
                ("s^2", poly::sub(f, &spoly, &tc)),
                ("u1", poly::sub(f, &u1, &tc)),
                ("u2", poly::sub(f, &u2, &tc)),
                ("u2*u1^2", poly::sub(f, &arg, &tc)),
                // check = 2 s u1 v with v^2 = 1/(u2 u1^2)  =>  check^2 * u2 = 4 s^2
                ("sign-check value", poly::sub(f, &poly::scale(f, &u2, &t2), &four_s)),
            ];
            let mut out = vec![];
            for (name, eq) in eqs {
                for w in poly::roots(f, &eq) {
                    if let Some(s) = f.xsqrt(&w) {
                        out.push((s, name));
                    }
                }
            }
            // s itself
            if !t.bit(0) {
                out.push((t.clone(), "s"));
            }
            out
        })
        .collect()
}

/// curve points (Z = 1) with affine x (kind 0), affine y (kind 1) or x*y (kind 2) equal to t
pub fn points_with(dc: &Decaf, kind: u8, t: &BigUint) -> Vec<Pt> {
    let f = dc.f();
    let d = &dc.c.d;
    let one = BigUint::one();
    match kind {
        0 => {
            let xx = f.sqr(t);
            let den = f.sub(&one, &f.mul(d, &xx));
            if den.is_zero() {
                return vec![];
            }
            match f.sqrt(&f.div(&f.add(&one, &xx), &den)) {
                Some(y) => vec![Pt { x: t.clone(), y: y.clone() }, Pt { x: t.clone(), y: f.neg(&y) }],
                None => vec![],
            }
        }
        1 => point_from_v(dc, &f.sqr(t)).into_iter().map(|p| if p.y == *t { p } else { Pt { x: p.x.clone(), y: f.neg(&p.y) } }).collect(),
        _ => {
            // (xy)^2 = v (v-1)/(1+dv), v = y^2  =>  v^2 - v - t^2 (1 + d v) = 0
            let t2 = f.sqr(t);
            let eq: Poly = vec![f.neg(&t2), f.neg(&f.add(&one, &f.mul(&t2, d))), one.clone()];
            let mut out = vec![];
            for v in poly::roots(f, &eq) {
                for p in point_from_v(dc, &v) {
                    for q in [p.clone(), Pt { x: p.x.clone(), y: f.neg(&p.y) }] {
                        if f.mul(&q.x, &q.y) == *t {
                            out.push(q);
                        }
                    }
                }
            }
            out
        }
    }
}

/// valid curve points with one of {x, y, u1 = (X+T)(X-T), T = xy} equal to a target (Z = 1)
pub fn points_by_intermediate(dc: &Decaf) -> Vec<(Pt, &'static str)> {
    let f = dc.f();
    let d = &dc.c.d;
    let one = BigUint::one();
    let fam = targets_with_constants(dc);
    fam.par_iter()
        .flat_map(|t| {
            let mut cands: Vec<(Pt, &'static str)> = vec![];
            // y = t
            for p in point_from_v(dc, &f.sqr(t)) {
                if p.y == *t {
                    cands.push((p, "y"));
                } else {
                    cands.push((Pt { x: p.x.clone(), y: f.neg(&p.y) }, "y"));
                }
            }
            // x = t : y^2 = (1 + x^2)/(1 - d x^2)
            let xx = f.sqr(t);
            let den = f.sub(&one, &f.mul(d, &xx));
            if !den.is_zero() {
                if let Some(y) = f.sqrt(&f.div(&f.add(&one, &xx), &den)) {
                    cands.push((Pt { x: t.clone(), y: y.clone() }, "x"));
                    cands.push((Pt { x: t.clone(), y: f.neg(&y) }, "x"));
                }
            }
            // u1 = x^2 (1 - v) = -(v-1)^2/(1+dv) = t  =>  (v-1)^2 + t (1 + d v) = 0
            let vm1 = lin(f.neg(&one), one.clone());
            let eq = poly::add(f, &poly::mul(f, &vm1, &vm1), &poly::scale(f, &lin(one.clone(), d.clone()), t));
            for v in poly::roots(f, &eq) {
                for p in point_from_v(dc, &v) {
                    cands.push((p, "u1"));
                }
            }
            // the encoder's inverse-square-root argument for the Z = 1 representative:
            // u1 (a-d) x^2 = -(a-d) (v-1)^3/(1+dv)^2 = t  =>  (a-d)(v-1)^3 + t (1+dv)^2 = 0
            let amd = f.sub(&dc.c.a, d);
            let opdv = lin(one.clone(), d.clone());
            let eq = poly::add(f, &poly::scale(f, &poly::mul(f, &poly::mul(f, &vm1, &vm1), &vm1), &amd), &poly::scale(f, &poly::mul(f, &opdv, &opdv), t));
            for v in poly::roots(f, &eq) {
                for p in point_from_v(dc, &v) {
                    cands.push((p, "encoder isqrt argument"));
                }
            }
            // T = x y = t : T^2 = x^2 y^2 = v (v-1)/(1+dv)  =>  v^2 - v - t^2 (1 + d v) = 0
            let t2 = f.sqr(t);
            let eq: Poly = vec![f.neg(&t2), f.neg(&f.add(&one, &f.mul(&t2, d))), one.clone()];
            for v in poly::roots(f, &eq) {
                for p in point_from_v(dc, &v) {
                    if f.mul(&p.x, &p.y) == *t {
                        cands.push((p, "T=xy"));
                    }
                }
            }
            cands.into_iter().filter(|(p, _)| dc.valid(p)).collect::<Vec<_>>()
        })
        .collect()
}
