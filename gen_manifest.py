#!/usr/bin/env python3
"""Regenerates /verif/MANIFEST.json from the table below (kept in one place so that the
claims, the commands and the not_applicable list never drift apart)."""
import json, subprocess, os

V = os.path.dirname(os.path.abspath(__file__))

def repo_hook_commits():
    out = subprocess.run(["git", "-C", "/repo", "log", "--format=%H %s"], capture_output=True, text=True).stdout
    return [l.split()[0] for l in out.splitlines() if "verif hook" in l]

E1 = "explicit-state BFS model checking of the real code against a reference group model"
E3 = "bounded-exhaustive enumeration of an explicitly listed finite input domain against a reference model"

CHECKS = {
 "C01": ("model_checking", E1 + " + " + E3,
   "Every product state (exact internal representative x abstract group element) reachable by programs of bounded length over every public operator form is checked for decode(encode(E)) == E, encode(decode(b)) == b and for the encoding<->class bijection; every accepted string of the C02 byte domain is re-encoded and compared bit for bit. Exhaustive inside the stated bounds, both builds.",
   "Reference model (BigUint, ported from ristretto.sage, bound to the sage vectors at every start); hook H1 to snapshot/rebuild representatives; bounded depth and finite alphabets (DESIGN 2, 3/C01)."),
 "C02": ("exploration", E3,
   "All seven decoding entry points on a deviation-bounded byte-string domain (every valid encoding found by the explorer x every near-miss transformer, complete small intervals, boundary values, every slice length 0..=80, encodings solved for so that the decoder's intermediates fall in comparison/negation/xor boundary classes, aliases s+kq whose word differences cancel under xor) compared with decodeSpec: verdict, error kind, element. Exhaustive over the listed domain, both builds.",
   "decodeSpec port is the oracle; domain is structured, not all 2^256 strings (DESIGN 3/C02)."),
 "C03": ("model_checking", E1,
   "On every reachable product state every encode exit (compress, compress_to_field, From impls, CanonicalSerialize of Element and AffinePoint, Debug/Display hex) must equal encodeSpec of the model class; injectivity across classes over the whole explored set.",
   "encodeSpec port; bounded depth (DESIGN 3/C03)."),
 "C04": ("model_checking", E1,
   "Every transition of the explorer is one real operator/method form (87 forms in the arkworks build, 29 in the minimal build) applied to every reachable representative x every pool operand (identity, 2-torsion representative, G, -G, other coset member, Z != 1, Elligator point, self); each result is compared with vector addition in (Z/r)^2 concretised by the reference curve arithmetic.",
   "Free-module model faithful for the small coefficients reached; bounded depth (DESIGN 2, 3/C04)."),
 "C05": ("model_checking", E1 + " + " + E3,
   "Scalar-multiplication transitions of the explorer (all Mul/MulAssign forms, mul_bigint, both minimal ladders) with boundary scalars, r*P = identity on every reachable state, plus a flat grid of ~750 structured scalars (powers of two, all-ones limbs, longer than the modulus) x 16 representatives x every form, and all MSM vectors of length 0..3.",
   "Reference scalar multiplication is naive double-and-add; scalars are a structured finite set (DESIGN 3/C05)."),
 "C06": ("model_checking", E1 + " + scripted-RNG environment enumeration",
   "Conversion transitions (into_affine, From, normalize_batch, batch_convert_to_mul_base ...) checked for conformance and validity on every reachable state; from_random_bytes / deserialisers on structured byte strings; samplers under every scripted RNG answer sequence up to a bound and under counter generators placed at 2^32 boundaries; validity decided in reference arithmetic (on curve, in 2E) and through the real API.",
   "RNG scripts over a finite limb alphabet with an explicit horizon (DESIGN 3/C06)."),
 "C07": ("exploration", E3,
   "encode_to_curve on complete small intervals, their negatives, roots of unity, boundary and limb-pattern values, and r0 solved for so that den / num / the square-root argument fall in boundary classes, compared with elligatorSpec (class + encoding), sign symmetry, validity; hash_to_curve on a full 2-D grid against the reference sum. Every control class (r0 = 0, square / non-square branch, sign flip) must be hit.",
   "elligatorSpec port; singular loci analysed in the reference at every run (DESIGN 3/C07)."),
 "C08": ("model_checking", E1,
   "Every reachable representative is compared with the stored representatives of its own class and with all pool operands: == both ways, Hash under two hashers, encodings; every identity predicate on every state of the identity class and of every other class; the same predicates on both coset members of points solved for from boundary-class coordinates.",
   "Pairs are (state x first 6 representatives of its class x 8 pool operands), not all pairs of all states (DESIGN 3/C08)."),
 "C09": ("exploration", E3,
   "sqrt_ratio_zeta (table-driven) and the minimal Tonelli-Shanks variant on ratios whose 2-primary discrete log takes every value of every 8-bit table digit (<= 2 non-zero digits), all 2^k roots of unity, zeta^k, zero operands; expected flag known by construction; y checked in reference arithmetic; Field::sqrt and legendre against Euler.",
   "Inputs are built by reference arithmetic from the digit abstraction (DESIGN 3/C09)."),
 "C10": ("model_checking", E3 + " + explicit-state accumulator chains",
   "Every operator/method form of Fq, Fr, Fp on both backends over structured operand grids (limb patterns, values around p, Montgomery constants, Montgomery-domain limb patterns, comparison/borrow boundary classes, operands with long divstep trajectories) against BigUint arithmetic, plus accumulator chains of bounded depth that reach unstructured intermediate values.",
   "BigUint mod-p arithmetic; operand sets are structured, not all of [0,p) (DESIGN 3/C10)."),
 "C11": ("exploration", E3,
   "Byte strings of every length 0..=200 x content patterns, all 32/48-byte values around p / 2^k, every flag value for the standard flag types, all conversions and round trips on the C10 operand sets, Ord and Hash on pairs; oracle = the integer the bytes denote.",
   "BigUint integer semantics (DESIGN 3/C11)."),
 "C12": ("exploration", "differential execution of identical exhaustively enumerated operation streams on both builds",
   "Both binaries walk the same enumerated operation list (decode/encode/Elligator/group programs/scalar mul/field API shared by both builds) and emit digest-chunked transcripts that must be identical; first differing record is the replay.",
   "Only operations both builds offer; same finite domains as C02/C05/C07/C10/C11 (DESIGN 3/C12)."),
 "C13": ("model_checking", "explicit-state exploration of forcing histories of the lazy variable + " + E3,
   "Honest synthesis of every gadget on structured inputs (operands allocated from elements, and two-operand gadgets also from pairs of lazily allocated valid/invalid encodings): satisfied iff native succeeds, output equals native; all histories of bounded length over the lazy variable's operations checked against the 3-state model (state tag, no re-emission, values unchanged).",
   "Hooks H3; ark-relations' is_satisfied as the constraint evaluator (DESIGN 3/C13)."),
 "C14": ("fault_enumeration", "exhaustive enumeration of prover-hint substitutions (fault sequences) at every isqrt call site",
   "For every gadget input and every isqrt call of a synthesis, every hint from a set that contains all values able to satisfy any case equation is substituted (singly; pairs in thorough); satisfied => output equals native and native accepts.",
   "Hook H2; completeness of the hint set follows from the constraint block (DESIGN 3/C14)."),
 "C15": ("exploration", E3,
   "Constraint-matrix digests of every gadget and the seven pinned circuits across inputs and Setup/Prove mode; public-input shape; Groth16 prove/verify with the pinned keys on structured witnesses, cross-rejection on other public inputs.",
   "Groth16 soundness assumed; keys read from /repo/tests/test_vectors (DESIGN 3/C15)."),
 "C16": ("exploration", E3,
   "decaf377::Bls12_377 vs ark_bls12_377::Bls12_377: generators, scalar multiples, (de)serialisation both ways (honest encodings, non-canonical coefficient slots, and curve points solved for so that y sits in the boundary classes of the sign-flag comparison), pairings on a scalar grid, bilinearity, Frobenius maps of the whole tower against x^(p^i).",
   "ark-bls12-377 is the reference engine (DESIGN 3/C16)."),
 "C17": ("exploration", "complete enumeration of the finite list of public constants against recomputation from the moduli",
   "Every public constant of the three fields, the curve and the pairing engine, in both builds, recomputed from the modulus alone (or checked against its defining property using certified factorisations of p-1), and checked to be stored in canonical representation.",
   "Factorisations re-verified at every run (Miller-Rabin + product) (DESIGN 3/C17)."),
}

BUILT = ["C01", "C02", "C03", "C04", "C05", "C06", "C07", "C08", "C09", "C10", "C11", "C12", "C13", "C14", "C15", "C16", "C17"]

def main():
    props = [json.loads(l)["id"] for l in open(os.path.join(V, "properties.jsonl"))]
    checks = []
    for p in props:
        if p not in BUILT:
            continue
        cat, tech, text, note = CHECKS[p]
        checks.append({
            "property_id": p,
            "quick_cmd": f"./check {p} quick",
            "thorough_cmd": f"./check {p} thorough",
            "evidence_file": f"/verif/evidence/{p}.json",
            "replay_cmd_template": f"./check {p} --replay {{path}}",
            "engine": "mc-harness",
            "level_claimed": {"category": cat, "text": text, "design_ref": f"DESIGN.md section 3/{p}"},
            "level_note": note,
            "technique": tech,
        })
    m = {
        "version": 1,
        "setup_cmd": "./setup.sh",
        "hooks": {
            "guard": "decaf377_verif",
            "enable": "RUSTFLAGS=\"--cfg decaf377_verif\" (set by ./check and ./setup.sh when building mc/harness against /repo)",
            "baseline_off_cmd": "cd /repo && cargo test --workspace --no-fail-fast --offline",
            "source_commits": repo_hook_commits(),
            "add_only": True,
        },
        "engines": [
            {"name": "mc-harness", "path": "/verif/mc", "serves_properties": BUILT,
             "kind_free_text": "Rust harness (two binaries: arkworks+r1cs build and minimal build of /repo): E1 layered parallel BFS over a stateright::Model with the real code as transition function (cross-checked against stateright's own checker), E2 history explorer for R1CS objects, E3 flat exhaustive enumerator; reference model in refmodel/ (BigUint, ported from ristretto.sage)"},
        ],
        "checks": checks,
        "not_applicable": [{"property_id": p, "reason": "check under construction at this commit (designed in DESIGN.md section 3; not yet claimed)"} for p in props if p not in BUILT],
        "notes": "Technique family: model checking (bounded exhaustive exploration of the real code against a reference model). See DESIGN.md.",
    }
    json.dump(m, open(os.path.join(V, "MANIFEST.json"), "w"), indent=1)

if __name__ == "__main__":
    main()
