//! C17 -- published constants are consistent with the moduli and curve they describe.
//! The list of public constants is finite and is walked completely (exhaustive: true).
use crate::core::*;
use crate::fields::FS;
use crate::sut::*;
use num_bigint::BigUint;
use num_traits::{One, Zero};
use refmodel::consts::*;
use refmodel::fld::{from_limbs, u};
use refmodel::spec::Decaf;
use serde_json::{json, Value};
use std::sync::Arc;

type Res = Result<(), (String, String)>;
pub struct Item {
    pub name: String,
    pub f: Box<dyn Fn() -> Res + Send + Sync>,
}

fn eq_big(want: &BigUint, got: &BigUint) -> Res {
    if want == got {
        Ok(())
    } else {
        Err((want.to_string(), got.to_string()))
    }
}
fn truth(what: &str, b: bool) -> Res {
    if b {
        Ok(())
    } else {
        Err((format!("{what} holds"), format!("{what} does not hold")))
    }
}

macro_rules! field_items {
    ($items:ident, $F:ty, $facts:expr, $qnr_to_trace:expr) => {{
        let name = <$F as FS>::NAME;
        let fa: Arc<FieldFacts> = Arc::new($facts);
        macro_rules! it {
            ($n:expr, $body:expr) => {{
                let fa2 = fa.clone();
                let g: fn(&FieldFacts) -> Res = $body;
                $items.push(Item { name: format!("{name}::{}", $n), f: Box::new(move || g(&fa2)) });
            }};
        }
        it!("[reference] factorisation of p-1 certified", |fa| truth("every claimed factor is prime and the product is p-1", fa.factorisation_verified));
        it!("MODULUS_LIMBS", |fa| eq_big(&fa.f.p, &from_limbs(&<$F>::MODULUS_LIMBS)));
        it!("MODULUS_MINUS_ONE_DIV_TWO_LIMBS", |fa| eq_big(&fa.half, &from_limbs(&<$F>::MODULUS_MINUS_ONE_DIV_TWO_LIMBS)));
        it!("MODULUS_BIT_SIZE", |fa| eq_big(&u(fa.bits), &u(<$F>::MODULUS_BIT_SIZE as u64)));
        it!("TRACE_LIMBS", |fa| eq_big(&fa.trace, &from_limbs(&<$F>::TRACE_LIMBS)));
        it!("TRACE_MINUS_ONE_DIV_TWO_LIMBS", |fa| eq_big(&fa.half_trace, &from_limbs(&<$F>::TRACE_MINUS_ONE_DIV_TWO_LIMBS)));
        it!("TWO_ADICITY", |fa| eq_big(&u(fa.two_adicity as u64), &u(<$F>::TWO_ADICITY as u64)));
        it!("MULTIPLICATIVE_GENERATOR generates F*", |fa| truth("g^((p-1)/f) != 1 for every prime f | p-1", fa.is_generator(&<$F>::MULTIPLICATIVE_GENERATOR.big())));
        it!("MULTIPLICATIVE_GENERATOR == documented value", |fa| eq_big(&fa.conventional_generator, &<$F>::MULTIPLICATIVE_GENERATOR.big()));
        it!("TWO_ADIC_ROOT_OF_UNITY == GENERATOR^TRACE", |fa| eq_big(&fa.f.pow(&<$F>::MULTIPLICATIVE_GENERATOR.big(), &fa.trace), &<$F>::TWO_ADIC_ROOT_OF_UNITY.big()));
        it!("TWO_ADIC_ROOT_OF_UNITY has order 2^s", |fa| truth("order exactly 2^TWO_ADICITY", fa.has_order_two_pow_s(&<$F>::TWO_ADIC_ROOT_OF_UNITY.big())));
        it!("FIELD_SIZE_POWER_OF_TWO", |fa| eq_big(&fa.size_power_of_two, &<$F>::FIELD_SIZE_POWER_OF_TWO.big()));
        it!("ZERO", |fa| eq_big(&BigUint::zero(), &<$F>::ZERO.big()));
        it!("ONE", |fa| eq_big(&BigUint::one(), &<$F>::ONE.big()));
        if let Some(q2t) = $qnr_to_trace {
            let q2t: BigUint = q2t;
            let (q2, fa2) = (q2t.clone(), fa.clone());
            $items.push(Item { name: format!("{name}::QUADRATIC_NON_RESIDUE_TO_TRACE has order 2^s"), f: Box::new(move || truth("order exactly 2^TWO_ADICITY (i.e. it is QNR^TRACE for a non-residue)", fa2.has_order_two_pow_s(&q2))) });
            let (q3, fa3) = (q2t.clone(), fa.clone());
            $items.push(Item { name: format!("{name}::QUADRATIC_NON_RESIDUE_TO_TRACE == (least QNR)^TRACE (helper-script convention)"), f: Box::new(move || eq_big(&fa3.f.pow(&fa3.f.nonres, &fa3.trace), &q3)) });
        }
    }};
}

#[cfg(feature = "ark")]
macro_rules! ark_field_items {
    ($items:ident, $F:ty, $facts:expr) => {{
        use ark_ff::{FftField, Field, PrimeField, SqrtPrecomputation};
        let name = <$F as FS>::NAME;
        let fa: Arc<FieldFacts> = Arc::new($facts);
        macro_rules! it {
            ($n:expr, $body:expr) => {{
                let fa2 = fa.clone();
                let g: fn(&FieldFacts) -> Res = $body;
                $items.push(Item { name: format!("{name} as ark: {}", $n), f: Box::new(move || g(&fa2)) });
            }};
        }
        it!("PrimeField::MODULUS", |fa| eq_big(&fa.f.p, &from_limbs(&<$F as PrimeField>::MODULUS.0)));
        it!("PrimeField::MODULUS_MINUS_ONE_DIV_TWO", |fa| eq_big(&fa.half, &from_limbs(&<$F as PrimeField>::MODULUS_MINUS_ONE_DIV_TWO.0)));
        it!("PrimeField::MODULUS_BIT_SIZE", |fa| eq_big(&u(fa.bits), &u(<$F as PrimeField>::MODULUS_BIT_SIZE as u64)));
        it!("PrimeField::TRACE", |fa| eq_big(&fa.trace, &from_limbs(&<$F as PrimeField>::TRACE.0)));
        it!("PrimeField::TRACE_MINUS_ONE_DIV_TWO", |fa| eq_big(&fa.half_trace, &from_limbs(&<$F as PrimeField>::TRACE_MINUS_ONE_DIV_TWO.0)));
        it!("FftField::GENERATOR generates F*", |fa| truth("generator", fa.is_generator(&<$F as FftField>::GENERATOR.big())));
        it!("FftField::GENERATOR == inherent MULTIPLICATIVE_GENERATOR", |fa| eq_big(&<$F>::MULTIPLICATIVE_GENERATOR.big(), &<$F as FftField>::GENERATOR.big()));
        it!("FftField::TWO_ADICITY", |fa| eq_big(&u(fa.two_adicity as u64), &u(<$F as FftField>::TWO_ADICITY as u64)));
        it!("FftField::TWO_ADIC_ROOT_OF_UNITY == GENERATOR^TRACE", |fa| eq_big(&fa.f.pow(&<$F as FftField>::GENERATOR.big(), &fa.trace), &<$F as FftField>::TWO_ADIC_ROOT_OF_UNITY.big()));
        it!("FftField small-subgroup constants are None", |fa| truth("SMALL_SUBGROUP_BASE/ADICITY/LARGE_SUBGROUP_ROOT_OF_UNITY are None", <$F as FftField>::SMALL_SUBGROUP_BASE.is_none() && <$F as FftField>::SMALL_SUBGROUP_BASE_ADICITY.is_none() && <$F as FftField>::LARGE_SUBGROUP_ROOT_OF_UNITY.is_none()));
        it!("Field::ZERO / Field::ONE", |fa| truth("0 and 1", <$F as Field>::ZERO.big().is_zero() && <$F as Field>::ONE.big().is_one()));
        it!("Field::characteristic()", |fa| eq_big(&fa.f.p, &from_limbs(<$F as Field>::characteristic())));
        it!("Field::extension_degree()", |fa| eq_big(&u(1), &u(<$F as Field>::extension_degree())));
        it!("Field::SQRT_PRECOMP", |fa| match <$F as Field>::SQRT_PRECOMP {
            Some(SqrtPrecomputation::TonelliShanks { two_adicity, quadratic_nonresidue_to_trace, trace_of_modulus_minus_one_div_two }) => {
                eq_big(&u(fa.two_adicity as u64), &u(two_adicity as u64))
                    .and(truth("precomputed non-residue power has order 2^s", fa.has_order_two_pow_s(&quadratic_nonresidue_to_trace.big())))
                    .and(eq_big(&fa.half_trace, &from_limbs(trace_of_modulus_minus_one_div_two)))
            }
            Some(SqrtPrecomputation::Case3Mod4 { modulus_plus_one_div_four }) => {
                truth("p = 3 mod 4", (&fa.f.p % 4u32) == u(3)).and(eq_big(&((&fa.f.p + 1u32) >> 2), &from_limbs(modulus_plus_one_div_four)))
            }
            None => Err(("Some(..)".into(), "None".into())),
            Some(_) => Err(("TonelliShanks or Case3Mod4".into(), "unknown variant".into())),
        });
    }};
}

/// A published constant must not only DENOTE the right value (checked through its canonical
/// bytes) but be REPRESENTED like any other field element: equal (==, cmp, hash) to the element
/// parsed from those bytes, and behave identically under negation, addition and subtraction
/// (an unreduced internal representation passes the byte comparison but not these).
fn canon<F: FS>(items: &mut Vec<Item>, name: &str, c: F) {
    let name = format!("{}::{name} is canonically represented", F::NAME);
    items.push(Item {
        name,
        f: Box::new(move || {
            let fld = refmodel::fld::Fld::new(F::modulus());
            let v = c.big();
            let parsed = F::of(&v);
            let x = F::of(&(F::modulus() / 3u32 * 2u32 + 12345u32));
            let xb = x.big();
            truth("c == parse(bytes(c)), both ways", c == parsed && parsed == c && c.cmp(&parsed) == std::cmp::Ordering::Equal && h64(&c) == h64(&parsed))
                .and(eq_big(&fld.neg(&v), &(-c).big()))
                .and(eq_big(&fld.add(&v, &xb), &(c + x).big()))
                .and(eq_big(&fld.sub(&xb, &v), &(x - c).big()))
                .and(eq_big(&fld.sub(&v, &xb), &(c - x).big()))
                .and(eq_big(&fld.sub(&BigUint::zero(), &v), &(F::zero() - c).big()))
                .and(eq_big(&fld.mul(&v, &xb), &(c * x).big()))
                .and(eq_big(&fld.sqr(&v), &c.i_square().big()))
                .and(truth("c - c == 0 and c + (-c) == 0", (c - c) == F::zero() && (c + (-c)) == F::zero()))
        }),
    });
}

pub fn items() -> Vec<Item> {
    use decaf377::{Fp, Fq, Fr};
    let mut items: Vec<Item> = vec![];
    canon::<Fq>(&mut items, "decaf377::ZETA", decaf377::ZETA);
    canon::<Fq>(&mut items, "MULTIPLICATIVE_GENERATOR", Fq::MULTIPLICATIVE_GENERATOR);
    canon::<Fq>(&mut items, "TWO_ADIC_ROOT_OF_UNITY", Fq::TWO_ADIC_ROOT_OF_UNITY);
    canon::<Fq>(&mut items, "QUADRATIC_NON_RESIDUE_TO_TRACE", Fq::QUADRATIC_NON_RESIDUE_TO_TRACE);
    canon::<Fq>(&mut items, "FIELD_SIZE_POWER_OF_TWO", Fq::FIELD_SIZE_POWER_OF_TWO);
    canon::<Fq>(&mut items, "ONE", Fq::ONE);
    canon::<Fq>(&mut items, "ZERO", Fq::ZERO);
    canon::<Fr>(&mut items, "MULTIPLICATIVE_GENERATOR", Fr::MULTIPLICATIVE_GENERATOR);
    canon::<Fr>(&mut items, "TWO_ADIC_ROOT_OF_UNITY", Fr::TWO_ADIC_ROOT_OF_UNITY);
    canon::<Fr>(&mut items, "FIELD_SIZE_POWER_OF_TWO", Fr::FIELD_SIZE_POWER_OF_TWO);
    canon::<Fr>(&mut items, "ONE", Fr::ONE);
    canon::<Fr>(&mut items, "ZERO", Fr::ZERO);
    canon::<Fp>(&mut items, "MULTIPLICATIVE_GENERATOR", Fp::MULTIPLICATIVE_GENERATOR);
    canon::<Fp>(&mut items, "TWO_ADIC_ROOT_OF_UNITY", Fp::TWO_ADIC_ROOT_OF_UNITY);
    canon::<Fp>(&mut items, "QUADRATIC_NON_RESIDUE_TO_TRACE", Fp::QUADRATIC_NON_RESIDUE_TO_TRACE);
    canon::<Fp>(&mut items, "QUADRATIC_NON_RESIDUE", Fp::QUADRATIC_NON_RESIDUE);
    canon::<Fp>(&mut items, "MINUS_ONE", Fp::MINUS_ONE);
    canon::<Fp>(&mut items, "FIELD_SIZE_POWER_OF_TWO", Fp::FIELD_SIZE_POWER_OF_TWO);
    canon::<Fp>(&mut items, "ONE", Fp::ONE);
    canon::<Fp>(&mut items, "ZERO", Fp::ZERO);
    {
        // the generator's coordinates
        let c = Element::GENERATOR.verif_coords();
        canon::<Fq>(&mut items, "Element::GENERATOR.X", c[0]);
        canon::<Fq>(&mut items, "Element::GENERATOR.Y", c[1]);
        canon::<Fq>(&mut items, "Element::GENERATOR.Z", c[2]);
        canon::<Fq>(&mut items, "Element::GENERATOR.T", c[3]);
    }
    field_items!(items, Fq, FieldFacts::fq(), Some(Fq::QUADRATIC_NON_RESIDUE_TO_TRACE.big()));
    field_items!(items, Fr, FieldFacts::fr(), None::<BigUint>);
    field_items!(items, Fp, FieldFacts::fp(), Some(Fp::QUADRATIC_NON_RESIDUE_TO_TRACE.big()));
    let fp = FieldFacts::fp();
    items.push(Item { name: "Fp::MINUS_ONE".into(), f: Box::new(move || eq_big(&(&FieldFacts::fp().f.p - 1u32), &Fp::MINUS_ONE.big())) });
    items.push(Item { name: "Fp::QUADRATIC_NON_RESIDUE is a non-residue".into(), f: Box::new(move || truth("Euler criterion = -1", fp.f.legendre(&Fp::QUADRATIC_NON_RESIDUE.big()) == -1)) });
    // curve-level constants
    items.push(Item {
        name: "decaf377::ZETA == specification qnr, and is a non-square".into(),
        f: Box::new(|| {
            let dc = Decaf::new();
            eq_big(&dc.zeta, &decaf377::ZETA.big()).and(truth("zeta non-square", dc.f().legendre(&decaf377::ZETA.big()) == -1))
        }),
    });
    // class-level: which coset member / projective scaling a constant is stored as is not part of
    // the property (generator = decode(8) as an ELEMENT; identity = the neutral element)
    items.push(Item {
        name: "Element::GENERATOR is decodeSpec(8) as an element (valid extended coordinates; encodes to 8)".into(),
        f: Box::new(|| {
            let dc = Decaf::new();
            let c = coords_big(&el_coords(&Element::GENERATOR));
            let mut enc = [0u8; 32];
            enc[0] = 8;
            truth("class of decodeSpec(8)", same_class_coords(&dc, &c, &dc.generator()) && Element::GENERATOR.vartime_compress().0 == enc)
        }),
    });
    items.push(Item {
        name: "Element::IDENTITY is the neutral element (X = 0, valid extended coordinates; encodes to 0)".into(),
        f: Box::new(|| {
            let dc = Decaf::new();
            let c = coords_big(&el_coords(&Element::IDENTITY));
            truth("identity class", c[0].is_zero() && same_class_coords(&dc, &c, &dc.c.identity()) && Element::IDENTITY.vartime_compress().0 == [0u8; 32] && Element::IDENTITY.is_identity())
        }),
    });
    items.push(Item {
        name: "Element::GENERATOR has order exactly r (r certified prime, r*G = identity, G != identity)".into(),
        f: Box::new(|| {
            let dc = Decaf::new();
            let rl = limbs_n(&dc.r, 4);
            #[cfg(feature = "ark")]
            let rg = ark_ec::Group::mul_bigint(&Element::GENERATOR, &rl);
            #[cfg(not(feature = "ark"))]
            let rg = Element::GENERATOR.scalar_mul_vartime(&rl);
            truth("r*G == identity && G != identity && r prime", rg.is_identity() && !Element::GENERATOR.is_identity() && refmodel::fld::is_probable_prime(&dc.r))
        }),
    });
    #[cfg(feature = "ark")]
    {
        use decaf377::{Fp, Fq, Fr};
        ark_field_items!(items, Fq, FieldFacts::fq());
        ark_field_items!(items, Fr, FieldFacts::fr());
        ark_field_items!(items, Fp, FieldFacts::fp());
        ark_curve_items(&mut items);
    }
    items
}

#[cfg(feature = "ark")]
fn ark_curve_items(items: &mut Vec<Item>) {
    use ark_ec::pairing::Pairing;
    use ark_ec::short_weierstrass::SWCurveConfig;
    use ark_ec::twisted_edwards::{MontCurveConfig, TECurveConfig};
    use ark_ec::{AffineRepr, CurveConfig, CurveGroup, Group};
    use ark_ff::Field;
    use decaf377::{Bls12_377, Fp, Fq, Fr};
    type Cfg = <Element as CurveGroup>::Config;
    macro_rules! it {
        ($n:expr, $body:expr) => {
            items.push(Item { name: $n.to_string(), f: Box::new(move || $body) });
        };
    }
    it!("TECurveConfig::COEFF_A == -1", eq_big(&(&FieldFacts::fq().f.p - 1u32), &<Cfg as TECurveConfig>::COEFF_A.big()));
    it!("TECurveConfig::COEFF_D == 3021", eq_big(&u(3021), &<Cfg as TECurveConfig>::COEFF_D.big()));
    it!("TECurveConfig::mul_by_a(x) == a*x", {
        let x = Fq::of(&u(123456789));
        eq_big(&FieldFacts::fq().f.neg(&u(123456789)), &<Cfg as TECurveConfig>::mul_by_a(x).big())
    });
    it!("TECurveConfig::GENERATOR is decodeSpec(8) as an element", {
        let dc = Decaf::new();
        let gg = <Cfg as TECurveConfig>::GENERATOR;
        let c = [gg.x.big(), gg.y.big(), BigUint::one(), dc.f().mul(&gg.x.big(), &gg.y.big())];
        truth("class of decodeSpec(8)", same_class_coords(&dc, &c, &dc.generator()))
    });
    it!("generator published consistently: Element::GENERATOR, Group::generator, AffineRepr::generator, TECurveConfig::GENERATOR denote the same element", {
        let dc = Decaf::new();
        let g = dc.generator();
        let b = coords_big(&el_coords(&<Element as Group>::generator()));
        let ca = coords_big(&af_coords(&<Affine as AffineRepr>::generator()));
        let c = [ca[0].clone(), ca[1].clone(), BigUint::one(), dc.f().mul(&ca[0], &ca[1])];
        truth("all denote decodeSpec(8)", same_class_coords(&dc, &b, &g) && same_class_coords(&dc, &c, &g) && <Element as Group>::generator() == Element::GENERATOR)
    });
    it!("MontCurveConfig::COEFF_A == 2(a+d)/(a-d)", {
        let f = FieldFacts::fq().f;
        let (a, d) = (f.neg(&u(1)), u(3021));
        eq_big(&f.div(&f.mul(&u(2), &f.add(&a, &d)), &f.sub(&a, &d)), &<Cfg as MontCurveConfig>::COEFF_A.big())
    });
    it!("MontCurveConfig::COEFF_B == 4/(a-d)", {
        let f = FieldFacts::fq().f;
        let (a, d) = (f.neg(&u(1)), u(3021));
        eq_big(&f.div(&u(4), &f.sub(&a, &d)), &<Cfg as MontCurveConfig>::COEFF_B.big())
    });
    it!("CurveConfig::COFACTOR == 1 and COFACTOR * COFACTOR_INV == 1 mod r", {
        let cof = from_limbs(<Cfg as CurveConfig>::COFACTOR);
        let inv = <Cfg as CurveConfig>::COFACTOR_INV.big();
        eq_big(&u(1), &cof).and(eq_big(&u(1), &FieldFacts::fr().f.mul(&cof, &inv)))
    });
    // --- BLS12-377 engine
    type G1 = <Bls12_377 as Pairing>::G1Affine;
    type G2 = <Bls12_377 as Pairing>::G2Affine;
    type C1 = <G1 as AffineRepr>::Config;
    type C2 = <G2 as AffineRepr>::Config;
    type R1 = ark_bls12_377::g1::Config;
    type R2 = ark_bls12_377::g2::Config;
    let x = || u(0x8508c00000000001);
    it!("BLS12-377: p == p(X), q == r(X) for the published X", {
        use ark_ec::bls12::Bls12Config;
        let xx = from_limbs(<decaf377_bls_config::Cfg as Bls12Config>::X);
        eq_big(&x(), &xx).and(eq_big(&bls12_p(&xx), &FieldFacts::fp().f.p)).and(eq_big(&bls12_r(&xx), &FieldFacts::fq().f.p)).and(truth("X positive, twist type D as in the reference engine", !<decaf377_bls_config::Cfg as Bls12Config>::X_IS_NEGATIVE))
    });
    it!("G1 COFACTOR == h1(X) == reference engine's", {
        let c = from_limbs(<C1 as CurveConfig>::COFACTOR);
        eq_big(&bls12_h1(&x()), &c).and(eq_big(&from_limbs(<R1 as CurveConfig>::COFACTOR), &c))
    });
    it!("G1 COFACTOR * COFACTOR_INV == 1 mod q", {
        let f = FieldFacts::fq().f;
        eq_big(&u(1), &f.mul(&from_limbs(<C1 as CurveConfig>::COFACTOR), &<C1 as CurveConfig>::COFACTOR_INV.big()))
    });
    it!("G2 COFACTOR == h2(X) == reference engine's", {
        let c = from_limbs(<C2 as CurveConfig>::COFACTOR);
        eq_big(&bls12_h2(&x()), &c).and(eq_big(&from_limbs(<R2 as CurveConfig>::COFACTOR), &c))
    });
    it!("G2 COFACTOR * COFACTOR_INV == 1 mod q", {
        let f = FieldFacts::fq().f;
        eq_big(&u(1), &f.mul(&from_limbs(<C2 as CurveConfig>::COFACTOR), &<C2 as CurveConfig>::COFACTOR_INV.big()))
    });
    it!("G1 COEFF_A == 0, COEFF_B == 1", truth("a=0,b=1", <C1 as SWCurveConfig>::COEFF_A.big().is_zero() && <C1 as SWCurveConfig>::COEFF_B.big().is_one()));
    it!("G1 generator: on curve y^2 = x^3 + 1, order q, equals the reference engine's", {
        let f = FieldFacts::fp().f;
        let g = <C1 as SWCurveConfig>::GENERATOR;
        let (gx, gy) = (g.x.big(), g.y.big());
        let on = f.sqr(&gy) == f.add(&f.mul(&f.sqr(&gx), &gx), &u(1));
        let rg = <ark_bls12_377::G1Affine as AffineRepr>::generator();
        let same = ser(&rg.x) == gx.to_bytes_le_padded(48) && ser(&rg.y) == gy.to_bytes_le_padded(48);
        let ord = g.mul_bigint(&Fq::MODULUS_LIMBS).into_affine().is_zero() && !g.is_zero();
        truth("on curve && same as reference && order q", on && same && ord)
    });
    it!("G2 COEFF_A == 0, COEFF_B and generator byte-equal to the reference engine's, order q, on curve", {
        let g = <C2 as SWCurveConfig>::GENERATOR;
        let rg = <ark_bls12_377::G2Affine as AffineRepr>::generator();
        let same = ser(&rg.x) == ser(&g.x) && ser(&rg.y) == ser(&g.y) && ser(&<R2 as SWCurveConfig>::COEFF_B) == ser(&<C2 as SWCurveConfig>::COEFF_B) && ser(&<R2 as SWCurveConfig>::COEFF_A) == ser(&<C2 as SWCurveConfig>::COEFF_A);
        let on = g.y.square() == g.x.square() * g.x + <C2 as SWCurveConfig>::COEFF_B;
        let ord = g.mul_bigint(&Fq::MODULUS_LIMBS).into_affine().is_zero() && !g.is_zero();
        truth("same as reference && on curve && order q", same && on && ord)
    });
    it!("extension tower: Frobenius coefficients define x -> x^(p^i) on Fp2, Fp6, Fp12 (i = 0..11, every basis element)", frobenius_check());
    it!("extension tower: NONRESIDUE of Fp2 / Fp6 / Fp12 byte-equal to the reference engine's, Fp2's is a quadratic non-residue, and each mul_*_by_nonresidue hook multiplies by exactly that constant", {
        use ark_ec::bls12::Bls12Config;
        use ark_ff::{Fp12Config, Fp2Config, Fp6Config};
        type T2 = <decaf377_bls_config::Cfg as Bls12Config>::Fp2Config;
        type T6 = <decaf377_bls_config::Cfg as Bls12Config>::Fp6Config;
        type T12 = <decaf377_bls_config::Cfg as Bls12Config>::Fp12Config;
        let same = ser(&<T2 as Fp2Config>::NONRESIDUE) == ser(&<ark_bls12_377::Fq2Config as Fp2Config>::NONRESIDUE)
            && ser(&<T6 as Fp6Config>::NONRESIDUE) == ser(&<ark_bls12_377::Fq6Config as Fp6Config>::NONRESIDUE)
            && ser(&<T12 as Fp12Config>::NONRESIDUE) == ser(&<ark_bls12_377::Fq12Config as Fp12Config>::NONRESIDUE);
        let f = FieldFacts::fp().f;
        let nr = <T2 as Fp2Config>::NONRESIDUE.big();
        let qnr = f.pow(&nr, &((&f.p - 1u32) >> 1)) == &f.p - 1u32;
        // hooks agree with the constants on a few elements
        let xs: Vec<Fp> = vec![Fp::from(1u64), Fp::from(2u64), -Fp::from(7u64), Fp::from(0x1234_5678_9abc_def1u64).square()];
        let mut hooks = true;
        for x in &xs {
            let mut y = *x;
            <T2 as Fp2Config>::mul_fp_by_nonresidue_in_place(&mut y);
            hooks &= y == *x * <T2 as Fp2Config>::NONRESIDUE;
            let e2 = ark_ff::Fp2::<T2>::new(*x, x.square() + Fp::from(3u64));
            let mut z = e2;
            <T6 as Fp6Config>::mul_fp2_by_nonresidue_in_place(&mut z);
            hooks &= z == e2 * <T6 as Fp6Config>::NONRESIDUE;
            let e6 = ark_ff::Fp6::<T6>::new(e2, e2.square(), e2 + e2.square());
            let mut w = e6;
            <T12 as Fp12Config>::mul_fp6_by_nonresidue_in_place(&mut w);
            hooks &= w == e6 * <T12 as Fp12Config>::NONRESIDUE;
        }
        truth("same as reference && non-residue && hooks consistent", same && qnr && hooks)
    });
    let _ = (Fr::ZERO, Fp::ZERO);
}

/// (X : Y : Z : T) is a valid extended representation of the element of the reference point g
pub fn same_class_coords(dc: &Decaf, c: &[BigUint; 4], g: &refmodel::curve::Pt) -> bool {
    let f = dc.f();
    match f.inv(&c[2]) {
        Some(zi) => {
            let (x, y) = (f.mul(&c[0], &zi), f.mul(&c[1], &zi));
            ((x == g.x && y == g.y) || (x == f.neg(&g.x) && y == f.neg(&g.y))) && f.mul(&c[3], &c[2]) == f.mul(&c[0], &c[1])
        }
        None => false,
    }
}

#[cfg(feature = "ark")]
mod decaf377_bls_config {
    // the Bls12Config type is not exported by name; recover it from the engine type alias
    pub trait Unwrap {
        type C;
    }
    impl<C: ark_ec::bls12::Bls12Config> Unwrap for ark_ec::bls12::Bls12<C> {
        type C = C;
    }
    pub type Cfg = <decaf377::Bls12_377 as Unwrap>::C;
}

#[cfg(feature = "ark")]
trait PadLe {
    fn to_bytes_le_padded(&self, n: usize) -> Vec<u8>;
}
#[cfg(feature = "ark")]
impl PadLe for BigUint {
    fn to_bytes_le_padded(&self, n: usize) -> Vec<u8> {
        refmodel::fld::to_le_n(self, n)
    }
}
#[cfg(feature = "ark")]
pub fn ser<T: ark_serialize::CanonicalSerialize>(t: &T) -> Vec<u8> {
    let mut v = vec![];
    t.serialize_uncompressed(&mut v).unwrap();
    v
}

/// frobenius_map(x, i) == x^(p^i), computed with the generic `pow`, for every basis element of
/// every level of the tower -- touches every literal Frobenius coefficient.
#[cfg(feature = "ark")]
fn frobenius_check() -> Res {
    use ark_ec::pairing::Pairing;
    use ark_ff::{Field, One, Zero};
    use decaf377::Bls12_377;
    type F12 = <Bls12_377 as Pairing>::TargetField;
    let p = FieldFacts::fp().f.p;
    // basis of Fp12 over Fp: 12 elements, built from base-prime-field coordinates
    let mut basis: Vec<F12> = vec![];
    for i in 0..12 {
        let mut co = vec![<decaf377::Fp as FS>::zero(); 12];
        co[i] = <decaf377::Fp as FS>::one();
        basis.push(F12::from_base_prime_field_elems(&co).expect("12 coordinates"));
    }
    // plus a dense element
    let mut co = vec![];
    for i in 0..12u64 {
        co.push(decaf377::Fp::from(i * i + 7));
    }
    basis.push(F12::from_base_prime_field_elems(&co).unwrap());
    let mut pe = BigUint::one();
    for i in 0..12usize {
        let limbs = limbs_n(&pe, ((pe.bits() + 63) / 64).max(1) as usize);
        for (bi, b) in basis.iter().enumerate() {
            let want = b.pow(&limbs);
            let got = b.frobenius_map(i);
            if want != got {
                return Err((format!("frobenius_map(basis[{bi}], {i}) == basis[{bi}]^(p^{i})"), "differs (a literal Frobenius coefficient or non-residue is wrong)".into()));
            }
        }
        pe *= &p;
    }
    Ok(())
}

pub fn run(ctx: &Arc<Ctx>) {
    let its = items();
    let r = &ctx.report;
    for it in &its {
        let res = guarded(|| (it.f)());
        r.evaluations.fetch_add(1, std::sync::atomic::Ordering::Relaxed);
        r.note_nontrivial(h64(&it.name));
        r.class(it.name.split(|c| c == ':' || c == ' ').next().unwrap_or("misc"));
        let bad = match res {
            Ok(Ok(())) => None,
            Ok(Err((w, g))) => Some((w, g)),
            Err(m) => Some(("no panic".to_string(), format!("panic: {m}"))),
        };
        if let Some((w, g)) = bad {
            ctx.violation(Viol { key: format!("C17|{BUILD}|{}", it.name), engine: "E3/C17".into(), case: json!({"constant": it.name}), expected: w, got: g });
        }
    }
    for it in its.iter().take(6) {
        r.sample(&format!("C17/{}", it.name), || json!({"constant": it.name}));
    }
    r.set("constants_checked", json!(its.iter().map(|i| i.name.clone()).collect::<Vec<_>>()));
    r.rule(format!("E3/C17[{BUILD}]: the complete finite list of {} public-constant obligations of this build, each recomputed from the modulus / curve equation in the reference (plus: stored representation canonical, tower non-residues and their multiplication hooks consistent); distinct = distinct obligations", its.len()));
}

pub fn replay(case: &Value) -> (bool, Value) {
    let name = case["constant"].as_str().unwrap_or("");
    for it in items() {
        if it.name == name {
            return match guarded(|| (it.f)()) {
                Ok(Ok(())) => (true, json!({"constant": name, "result": "consistent"})),
                Ok(Err((w, g))) => (false, json!({"constant": name, "expected": w, "got": g})),
                Err(m) => (false, json!({"constant": name, "panic": m})),
            };
        }
    }
    (false, json!({"error": "unknown constant"}))
}
