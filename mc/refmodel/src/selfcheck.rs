//! Binds the reference model to the specification vectors the repository carries
//! (sage-generated): 16 encodings of k*G (tests/encoding.rs) and 8 Elligator vectors
//! (src/ark_curve/elligator.rs). Failure here is a machinery error, never a verdict.
use crate::curve::Pt;
use crate::fld::{big, int_le, to32, u};
use crate::spec::{Decaf, Reject};
use num_bigint::BigUint;
use num_traits::{One, Zero};

pub const SAGE_MULTIPLES: [&str; 16] = [
    "0000000000000000000000000000000000000000000000000000000000000000",
    "0800000000000000000000000000000000000000000000000000000000000000",
    "b2ecf9b9082d6306538be73b0d6ee741141f3222152da78685d6596efc8c1506",
    "2ebd42dd3a2307083c834e79fb9e787e352dd33e0d719f86ae4adb02fe382409",
    "6acd327d70f9588fac373d165f4d9d5300510274dffdfdf2bf0955acd78da50d",
    "460f913e516441c286d95dd30b0a2d2bf14264f325528b06455d7cb93ba13a0b",
    "ec8798bcbb3bf29329549d769f89cf7993e15e2c68ec7aa2a956edf5ec62ae07",
    "48b01e513dd37d94c3b48940dc133b92ccba7f546e99d3fc2e602d284f609f00",
    "a4e85dddd19c80ecf5ef10b9d27b6626ac1a4f90bd10d263c717ecce4da6570a",
    "1a8fea8cbfbc91236d8c7924e3e7e617f9dd544b710ee83827737fe8dc63ae00",
    "0a0f86eaac0c1af30eb138467c49381edb2808904c81a4b81d2b02a2d7816006",
    "588125a8f4e2bab8d16affc4ca60c5f64b50d38d2bb053148021631f72e99b06",
    "f43f4cefbe7326eaab1584722b1b4860de554b23a14490a03f3fd63a089add0b",
    "76c739a33ffd15cf6554a8e705dc573f26490b64de0c5bd4e4ac75ed5af8e60b",
    "200136952d18d3f6c70347032ba3fef4f60c240d706be2950b4f42f1a7087705",
    "bcb0f922df1c7aa9579394020187a2e19e2d8073452c6ab9b0c4b052aa50f505",
];

pub const ELL_INPUTS: [[u8; 32]; 8] = [
    [221, 101, 215, 58, 170, 229, 36, 124, 172, 234, 94, 214, 186, 163, 242, 30, 65, 123, 76, 74, 56, 60, 24, 213, 240, 137, 49, 189, 138, 39, 90, 6],
    [23, 203, 214, 51, 26, 149, 7, 160, 228, 239, 208, 147, 124, 109, 75, 72, 64, 16, 64, 215, 53, 185, 249, 168, 188, 49, 22, 194, 118, 7, 242, 16],
    [177, 123, 90, 180, 115, 7, 108, 183, 161, 167, 24, 15, 248, 218, 206, 227, 76, 137, 162, 187, 148, 174, 66, 44, 205, 1, 211, 91, 140, 50, 144, 1],
    [204, 225, 121, 228, 145, 30, 86, 208, 132, 242, 203, 9, 153, 90, 195, 150, 215, 49, 166, 70, 78, 68, 47, 98, 30, 130, 115, 139, 168, 242, 238, 8],
    [59, 150, 40, 159, 229, 96, 201, 47, 170, 163, 9, 208, 205, 201, 112, 241, 179, 82, 198, 79, 207, 160, 184, 245, 63, 189, 101, 115, 217, 228, 74, 13],
    [74, 159, 227, 190, 73, 213, 131, 200, 50, 102, 249, 230, 48, 103, 85, 168, 239, 149, 7, 164, 12, 42, 217, 177, 189, 97, 214, 98, 102, 73, 10, 16],
    [183, 227, 227, 192, 119, 10, 155, 143, 64, 60, 249, 165, 240, 39, 31, 197, 159, 121, 64, 82, 10, 1, 34, 35, 121, 34, 146, 69, 226, 196, 156, 14],
    [61, 21, 56, 224, 11, 181, 71, 186, 238, 126, 234, 240, 14, 168, 75, 73, 251, 111, 175, 85, 108, 9, 77, 2, 88, 249, 24, 235, 53, 96, 51, 15],
];
pub const ELL_XY: [[&str; 2]; 8] = [
    ["1267955849280145133999011095767946180059440909377398529682813961428156596086", "5356565093348124788258444273601808083900527100008973995409157974880178412098"],
    ["1502379126429822955521756759528876454108853047288874182661923263559139887582", "7074060208122316523843780248565740332109149189893811936352820920606931717751"],
    ["2943006201157313879823661217587757631000260143892726691725524748591717287835", "4988568968545687084099497807398918406354768651099165603393269329811556860241"],
    ["2893226299356126359042735859950249532894422276065676168505232431940642875576", "5540423804567408742733533031617546054084724133604190833318816134173899774745"],
    ["2950911977149336430054248283274523588551527495862004038190631992225597951816", "4487595759841081228081250163499667279979722963517149877172642608282938805393"],
    ["3318574188155535806336376903248065799756521242795466350457330678746659358665", "7706453242502782485686954136003233626318476373744684895503194201695334921001"],
    ["3753408652523927772367064460787503971543824818235418436841486337042861871179", "2820605049615187268236268737743168629279853653807906481532750947771625104256"],
    ["7803875556376973796629423752730968724982795310878526731231718944925551226171", "7033839813997913565841973681083930410776455889380940679209912201081069572111"],
];

fn unhex(s: &str) -> Vec<u8> {
    (0..s.len() / 2).map(|i| u8::from_str_radix(&s[2 * i..2 * i + 2], 16).unwrap()).collect()
}

/// Returns the list of failed self-checks (empty = reference bound to the spec vectors).
pub fn run(dc: &Decaf) -> Vec<String> {
    let mut bad = vec![];
    let c = &dc.c;
    let f = dc.f();
    // arithmetic sanity
    if !crate::fld::is_probable_prime(&f.p) || !crate::fld::is_probable_prime(&dc.r) {
        bad.push("q or r not prime".into());
    }
    let x = big("123456789123456789123456789123456789");
    if f.pow(&x, &big("98765432109876543210")) != f.pow_naive(&x, &big("98765432109876543210")) {
        bad.push("modpow disagrees with naive pow".into());
    }
    if f.legendre(&dc.zeta) != -1 {
        bad.push("zeta is a square".into());
    }
    let g = dc.generator();
    if !c.on_curve(&g) {
        bad.push("generator off curve".into());
    }
    // r*G is the class of the identity, G != identity
    if !c.mul(&g, &dc.r).x.is_zero() || g.x.is_zero() {
        bad.push("order of G".into());
    }
    // 16 sage multiples: encodeSpec(k*G) == vector, decodeSpec(vector) ~ k*G, from either representative
    let mut acc = c.identity();
    for (k, h) in SAGE_MULTIPLES.iter().enumerate() {
        let bytes = unhex(h);
        match dc.encode_spec_bytes(&acc) {
            Ok(e) if e[..] == bytes[..] => {}
            other => bad.push(format!("encodeSpec({k}G) = {other:?}")),
        }
        match dc.encode_spec_bytes(&c.other_rep(&acc)) {
            Ok(e) if e[..] == bytes[..] => {}
            other => bad.push(format!("encodeSpec({k}G + T2) = {other:?}")),
        }
        match dc.decode_spec(&bytes) {
            Ok(p) if c.same_class(&p, &acc) => {}
            other => bad.push(format!("decodeSpec(vector {k}) = {other:?}")),
        }
        if c.mul(&g, &u(k as u64)) != acc && c.mul(&g, &u(k as u64)) != c.other_rep(&acc) {
            bad.push(format!("mul({k}) != repeated add"));
        }
        acc = c.add(&acc, &g);
    }
    // Elligator vectors
    for i in 0..8 {
        let r0 = f.from_le(&ELL_INPUTS[i]);
        let p = dc.elligator_spec(&r0);
        let want = Pt { x: big(ELL_XY[i][0]), y: big(ELL_XY[i][1]) };
        if !c.same_class(&p, &want) {
            bad.push(format!("elligatorSpec vector {i}: {p:?}"));
        }
        if !dc.valid(&p) {
            bad.push(format!("elligatorSpec vector {i} not in 2E"));
        }
        // round trip on own outputs
        let e = dc.encode_spec_bytes(&p).unwrap();
        match dc.decode_spec(&e) {
            Ok(p2) if c.same_class(&p2, &p) => {}
            other => bad.push(format!("round trip elligator {i}: {other:?}")),
        }
    }
    // rejects
    let qm1 = &f.p - BigUint::one();
    if dc.decode_spec(&to32(&qm1)) != Err(Reject::NonSquare) {
        bad.push("q-1 not rejected as NonSquare".into());
    }
    let mut qb = f.p.to_bytes_le();
    qb.resize(32, 0);
    if dc.decode_spec(&qb) != Err(Reject::NonCanonical) {
        bad.push("q accepted".into());
    }
    if dc.decode_spec(&to32(&u(1))) != Err(Reject::Negative) {
        bad.push("1 accepted".into());
    }
    if dc.decode_spec(&[0u8; 31]) != Err(Reject::Length) {
        bad.push("31 bytes accepted".into());
    }
    if int_le(&dc.encode_spec_bytes(&c.torsion2()).unwrap()) != BigUint::zero() {
        bad.push("encodeSpec(0,-1) != 0".into());
    }
    // a point of E \ 2E: G' with 2G' = G does not exist in 2E... use any curve point failing valid()
    bad
}
