//! C13 -- R1CS gadgets compute what the native code computes, and are complete.
//!  (a) E3 grid: honest synthesis (SynthesisMode::Prove) of every gadget x structured input x
//!      allocation mode: satisfied <=> native success, output value == native output.
//!  (b) E2 lazy-variable histories: explicit-state search where a state is the operation history
//!      (replayed on a fresh constraint system for every expansion) deduplicated on a canonical
//!      key; checked against the 3-state model Encoding / Element / Both.
use crate::bfs::run_bfs;
use crate::core::*;
use crate::r1cs_util::*;
use crate::sut::*;
use ark_ff::{One as _, Zero as _};
use ark_relations::r1cs::{ConstraintSystemRef, SynthesisError};
use num_bigint::BigUint;
use rayon::prelude::*;
use refmodel::fld::u;
use refmodel::spec::Decaf;
use serde_json::{json, Value};
use stateright::{Model, Property};
use std::sync::atomic::Ordering;
use std::sync::Arc;

type SR<T> = Result<T, SynthesisError>;

/// outcome of one honest synthesis
pub struct Chk {
    pub synth: Synth,
    pub native_ok: bool,
    /// Some(false) = output differs from native
    pub value_ok: Option<bool>,
    pub detail: String,
}

fn alloc_el(cs: &ConstraintSystemRef<Fq>, e: Element, m: AllocationMode) -> SR<ElementVar> {
    <ElementVar as AllocVar<Element, Fq>>::new_variable(cs.clone(), || Ok(e), m)
}
fn alloc_fq(cs: &ConstraintSystemRef<Fq>, x: Fq, m: AllocationMode) -> SR<FqVar> {
    FqVar::new_variable(cs.clone(), || Ok(x), m)
}
fn el_val(v: &ElementVar) -> Option<Element> {
    guarded(|| v.value().ok()).ok().flatten()
}

pub struct Env {
    pub dc: Decaf,
    pub els: Vec<(String, Element)>,
    pub encs: Vec<(String, BigUint, bool)>,
    pub fqs: Vec<(String, BigUint)>,
    pub scalars: Vec<(String, BigUint)>,
}
impl Env {
    pub fn new() -> Self {
        let dc = Decaf::new();
        let encs = encoding_inputs(&dc);
        let q = dc.f().p.clone();
        let r = dc.r.clone();
        let mut fqs: Vec<(String, BigUint)> = vec![];
        for i in 0..10u64 {
            fqs.push((format!("{i}"), u(i)));
        }
        for (n, x) in [("q-1", &q - 1u32), ("q-2", &q - 2u32), ("(q-1)/2", (&q - 1u32) >> 1), ("(q+1)/2", (&q + 1u32) >> 1), ("zeta", dc.zeta.clone()), ("3021", u(3021)), ("2^252", BigUint::from(1u8) << 252), ("zeta^2", dc.f().sqr(&dc.zeta))] {
            fqs.push((n.into(), x));
        }
        for (i, x) in crate::fields::prand(0x13, 24, &q).into_iter().enumerate() {
            fqs.push((format!("pseudo-random #{i}"), x));
        }
        for (i, (x, e)) in crate::sqrtclass::elligator_r0s(&dc, true).into_iter().step_by(97).take(24).enumerate() {
            fqs.push((format!("sqrt-class r0 #{i} (log {e:#x})"), x));
        }
        let scalars = vec![("0".into(), u(0)), ("1".into(), u(1)), ("2".into(), u(2)), ("r-1".into(), &r - 1u32), ("(r+1)/2".into(), (&r + 1u32) >> 1), ("r".into(), r.clone()), ("2^255-19".into(), (BigUint::from(1u8) << 255) - 19u32)];
        Env { dc, els: element_inputs(), encs, fqs, scalars }
    }
}

#[derive(Clone, Copy, PartialEq, Eq, Hash, Debug)]
pub enum Inp {
    E,   // one element
    EE,  // two elements
    EEB, // two elements + boolean
    Enc, // a field element offered as encoding
    F,   // a field element
    ES,  // element + scalar
    EncEncB, // two field elements offered as encodings (lazily allocated operands) + boolean
}

pub struct Gadget {
    pub name: &'static str,
    pub inp: Inp,
    /// allocation modes that make sense for the first operand
    pub modes: &'static [AllocationMode],
    pub f: fn(&Env, usize, usize, usize, AllocationMode) -> Chk,
}

const ALL: &[AllocationMode] = &MODES;
const WC: &[AllocationMode] = &[AllocationMode::Witness, AllocationMode::Constant];
const W: &[AllocationMode] = &[AllocationMode::Witness];

fn chk_el(cs: &ConstraintSystemRef<Fq>, r: SR<ElementVar>, native: Option<Element>) -> Chk {
    let synth = sat_of(cs, &r);
    let (value_ok, detail) = match (&r, &native) {
        (Ok(v), Some(n)) => match el_val(v) {
            Some(g) => (Some(g == *n && g.vartime_compress().0 == n.vartime_compress().0), format!("gadget value {} native {}", hex::encode(g.vartime_compress().0), hex::encode(n.vartime_compress().0))),
            None => (Some(false), "gadget output has no value / is not a curve point".into()),
        },
        _ => (None, String::new()),
    };
    Chk { synth, native_ok: native.is_some(), value_ok, detail }
}
fn chk_fq(cs: &ConstraintSystemRef<Fq>, r: SR<FqVar>, native: Option<Fq>) -> Chk {
    let synth = sat_of(cs, &r);
    let (value_ok, detail) = match (&r, &native) {
        (Ok(v), Some(n)) => match v.value() {
            Ok(g) => (Some(g == *n), format!("gadget {} native {}", fq_big(&g), fq_big(n))),
            Err(_) => (Some(false), "no value".into()),
        },
        _ => (None, String::new()),
    };
    Chk { synth, native_ok: native.is_some(), value_ok, detail }
}
fn chk_bool(cs: &ConstraintSystemRef<Fq>, r: SR<Boolean<Fq>>, native: bool) -> Chk {
    let synth = sat_of(cs, &r);
    let (value_ok, detail) = match &r {
        Ok(v) => match v.value() {
            Ok(g) => (Some(g == native), format!("gadget {g} native {native}")),
            Err(_) => (Some(false), "no value".into()),
        },
        _ => (None, String::new()),
    };
    Chk { synth, native_ok: true, value_ok, detail }
}
/// a pure constraint (no output): satisfied <=> `holds`
fn chk_enforce(cs: &ConstraintSystemRef<Fq>, r: SR<()>, holds: bool) -> Chk {
    Chk { synth: sat_of(cs, &r), native_ok: holds, value_ok: None, detail: String::new() }
}

pub fn gadgets() -> Vec<Gadget> {
    let mut g: Vec<Gadget> = vec![];
    macro_rules! gd {
        ($n:expr, $inp:ident, $modes:expr, $f:expr) => {
            g.push(Gadget { name: $n, inp: Inp::$inp, modes: $modes, f: $f });
        };
    }
    gd!("alloc Element", E, ALL, |env, a, _, _, m| {
        let cs = new_cs(prove_mode());
        let e = env.els[a].1;
        chk_el(&cs, alloc_el(&cs, e, m), Some(e))
    });
    gd!("alloc AffinePoint", E, ALL, |env, a, _, _, m| {
        use ark_ec::CurveGroup;
        let cs = new_cs(prove_mode());
        let e = env.els[a].1;
        let af: Affine = e.into_affine();
        chk_el(&cs, <ElementVar as AllocVar<Affine, Fq>>::new_variable(cs.clone(), || Ok(af), m), Some(e))
    });
    gd!("alloc from Fq encoding (lazy) then value()", Enc, ALL, |env, a, _, _, m| {
        let cs = new_cs(prove_mode());
        let (_, s, _) = &env.encs[a];
        let native = Encoding(refmodel::fld::to32(s)).vartime_decompress().ok();
        let r = <ElementVar as AllocVar<Fq, Fq>>::new_variable(cs.clone(), || Ok(fq(s)), m).and_then(|v| {
            // force the element half: this is where the decoding constraints are emitted
            let _ = v.compress_to_field()?;
            let _ = v.negate()?;
            Ok(v)
        });
        chk_el(&cs, r, native)
    });
    gd!("compress_to_field", E, ALL, |env, a, _, _, m| {
        let cs = new_cs(prove_mode());
        let e = env.els[a].1;
        chk_fq(&cs, alloc_el(&cs, e, m).and_then(|v| v.compress_to_field()), Some(e.vartime_compress_to_field()))
    });
    gd!("decompress_from_field", Enc, ALL, |env, a, _, _, m| {
        let cs = new_cs(prove_mode());
        let (_, s, _) = &env.encs[a];
        let native = Encoding(refmodel::fld::to32(s)).vartime_decompress().ok();
        chk_el(&cs, alloc_fq(&cs, fq(s), m).and_then(ElementVar::decompress_from_field), native)
    });
    gd!("decompress_from_field then compress_to_field", Enc, W, |env, a, _, _, m| {
        let cs = new_cs(prove_mode());
        let (_, s, _) = &env.encs[a];
        let native = Encoding(refmodel::fld::to32(s)).vartime_decompress().ok().map(|e| e.vartime_compress_to_field());
        chk_fq(&cs, alloc_fq(&cs, fq(s), m).and_then(ElementVar::decompress_from_field).and_then(|v| v.compress_to_field()), native)
    });
    gd!("encode_to_curve", F, ALL, |env, a, _, _, m| {
        let cs = new_cs(prove_mode());
        let x = fq(&env.fqs[a].1);
        chk_el(&cs, alloc_fq(&cs, x, m).and_then(|v| ElementVar::encode_to_curve(&v)), Some(Element::encode_to_curve(&x)))
    });
    gd!("a + b", EE, WC, |env, a, b, _, m| {
        let cs = new_cs(prove_mode());
        let (x, y) = (env.els[a].1, env.els[b].1);
        chk_el(&cs, alloc_el(&cs, x, m).and_then(|va| Ok(va + alloc_el(&cs, y, AllocationMode::Witness)?)), Some(x + y))
    });
    gd!("a + &b", EE, W, |env, a, b, _, m| {
        let cs = new_cs(prove_mode());
        let (x, y) = (env.els[a].1, env.els[b].1);
        chk_el(&cs, alloc_el(&cs, x, m).and_then(|va| Ok(va + &alloc_el(&cs, y, AllocationMode::Witness)?)), Some(x + y))
    });
    gd!("a + Element (constant)", EE, W, |env, a, b, _, m| {
        let cs = new_cs(prove_mode());
        let (x, y) = (env.els[a].1, env.els[b].1);
        chk_el(&cs, alloc_el(&cs, x, m).map(|va| va + y), Some(x + y))
    });
    gd!("a += b", EE, W, |env, a, b, _, m| {
        let cs = new_cs(prove_mode());
        let (x, y) = (env.els[a].1, env.els[b].1);
        chk_el(&cs, alloc_el(&cs, x, m).and_then(|mut va| { va += alloc_el(&cs, y, AllocationMode::Witness)?; Ok(va) }), Some(x + y))
    });
    gd!("a += &b", EE, W, |env, a, b, _, m| {
        let cs = new_cs(prove_mode());
        let (x, y) = (env.els[a].1, env.els[b].1);
        chk_el(&cs, alloc_el(&cs, x, m).and_then(|mut va| { va += &alloc_el(&cs, y, AllocationMode::Witness)?; Ok(va) }), Some(x + y))
    });
    gd!("a += Element (constant)", EE, W, |env, a, b, _, m| {
        let cs = new_cs(prove_mode());
        let (x, y) = (env.els[a].1, env.els[b].1);
        chk_el(&cs, alloc_el(&cs, x, m).map(|mut va| { va += y; va }), Some(x + y))
    });
    gd!("a - b", EE, WC, |env, a, b, _, m| {
        let cs = new_cs(prove_mode());
        let (x, y) = (env.els[a].1, env.els[b].1);
        chk_el(&cs, alloc_el(&cs, x, m).and_then(|va| Ok(va - alloc_el(&cs, y, AllocationMode::Witness)?)), Some(x - y))
    });
    gd!("a - &b", EE, W, |env, a, b, _, m| {
        let cs = new_cs(prove_mode());
        let (x, y) = (env.els[a].1, env.els[b].1);
        chk_el(&cs, alloc_el(&cs, x, m).and_then(|va| Ok(va - &alloc_el(&cs, y, AllocationMode::Witness)?)), Some(x - y))
    });
    gd!("a - Element (constant)", EE, W, |env, a, b, _, m| {
        let cs = new_cs(prove_mode());
        let (x, y) = (env.els[a].1, env.els[b].1);
        chk_el(&cs, alloc_el(&cs, x, m).map(|va| va - y), Some(x - y))
    });
    gd!("a -= b", EE, W, |env, a, b, _, m| {
        let cs = new_cs(prove_mode());
        let (x, y) = (env.els[a].1, env.els[b].1);
        chk_el(&cs, alloc_el(&cs, x, m).and_then(|mut va| { va -= alloc_el(&cs, y, AllocationMode::Witness)?; Ok(va) }), Some(x - y))
    });
    gd!("a -= &b", EE, W, |env, a, b, _, m| {
        let cs = new_cs(prove_mode());
        let (x, y) = (env.els[a].1, env.els[b].1);
        chk_el(&cs, alloc_el(&cs, x, m).and_then(|mut va| { va -= &alloc_el(&cs, y, AllocationMode::Witness)?; Ok(va) }), Some(x - y))
    });
    gd!("a -= Element (constant)", EE, W, |env, a, b, _, m| {
        let cs = new_cs(prove_mode());
        let (x, y) = (env.els[a].1, env.els[b].1);
        chk_el(&cs, alloc_el(&cs, x, m).map(|mut va| { va -= y; va }), Some(x - y))
    });
    gd!("negate", E, ALL, |env, a, _, _, m| {
        let cs = new_cs(prove_mode());
        let e = env.els[a].1;
        chk_el(&cs, alloc_el(&cs, e, m).and_then(|v| v.negate()), Some(-e))
    });
    gd!("double_in_place", E, ALL, |env, a, _, _, m| {
        let cs = new_cs(prove_mode());
        let e = env.els[a].1;
        chk_el(&cs, alloc_el(&cs, e, m).and_then(|mut v| { v.double_in_place()?; Ok(v) }), Some(e + e))
    });
    gd!("CurveVar::zero / constant", E, W, |env, a, _, _, _| {
        let cs = new_cs(prove_mode());
        let e = env.els[a].1;
        let r: SR<ElementVar> = Ok(<ElementVar as CurveVar<Element, Fq>>::constant(e) + <ElementVar as CurveVar<Element, Fq>>::zero());
        chk_el(&cs, r, Some(e))
    });
    gd!("scalar_mul_le (witness bits)", ES, WC, |env, a, _, s, m| {
        let cs = new_cs(prove_mode());
        let e = env.els[a].1;
        let k = &env.scalars[s].1;
        let bits: Vec<bool> = (0..256).map(|i| k.bit(i)).collect();
        let native = e * fr(&(k % &env.dc.r));
        let r = alloc_el(&cs, e, m).and_then(|v| {
            let bv: Vec<Boolean<Fq>> = bits.iter().map(|b| Boolean::new_witness(cs.clone(), || Ok(*b))).collect::<SR<Vec<_>>>()?;
            v.scalar_mul_le(bv.iter())
        });
        chk_el(&cs, r, Some(native))
    });
    gd!("is_eq", EE, WC, |env, a, b, _, m| {
        let cs = new_cs(prove_mode());
        let (x, y) = (env.els[a].1, env.els[b].1);
        chk_bool(&cs, alloc_el(&cs, x, m).and_then(|va| va.is_eq(&alloc_el(&cs, y, AllocationMode::Witness)?)), x == y)
    });
    gd!("is_neq", EE, W, |env, a, b, _, m| {
        let cs = new_cs(prove_mode());
        let (x, y) = (env.els[a].1, env.els[b].1);
        chk_bool(&cs, alloc_el(&cs, x, m).and_then(|va| va.is_neq(&alloc_el(&cs, y, AllocationMode::Witness)?)), x != y)
    });
    gd!("enforce_equal", EE, WC, |env, a, b, _, m| {
        let cs = new_cs(prove_mode());
        let (x, y) = (env.els[a].1, env.els[b].1);
        chk_enforce(&cs, alloc_el(&cs, x, m).and_then(|va| va.enforce_equal(&alloc_el(&cs, y, AllocationMode::Witness)?)), x == y)
    });
    gd!("enforce_not_equal", EE, WC, |env, a, b, _, m| {
        let cs = new_cs(prove_mode());
        let (x, y) = (env.els[a].1, env.els[b].1);
        chk_enforce(&cs, alloc_el(&cs, x, m).and_then(|va| va.enforce_not_equal(&alloc_el(&cs, y, AllocationMode::Witness)?)), x != y)
    });
    gd!("conditional_enforce_equal", EEB, W, |env, a, b, c, m| {
        let cs = new_cs(prove_mode());
        let (x, y) = (env.els[a].1, env.els[b].1);
        let cond = c == 1;
        chk_enforce(&cs, alloc_el(&cs, x, m).and_then(|va| va.conditional_enforce_equal(&alloc_el(&cs, y, AllocationMode::Witness)?, &Boolean::new_witness(cs.clone(), || Ok(cond))?)), !cond || x == y)
    });
    gd!("conditional_enforce_not_equal", EEB, W, |env, a, b, c, m| {
        let cs = new_cs(prove_mode());
        let (x, y) = (env.els[a].1, env.els[b].1);
        let cond = c == 1;
        chk_enforce(&cs, alloc_el(&cs, x, m).and_then(|va| va.conditional_enforce_not_equal(&alloc_el(&cs, y, AllocationMode::Witness)?, &Boolean::new_witness(cs.clone(), || Ok(cond))?)), !cond || x != y)
    });
    // Two-operand gadgets on operands that are both still *pending encodings* (allocated from Fq,
    // nothing forced). Natively both operands must first decode; the gadget's result is then
    // used as an element (forced), so the system is satisfiable iff both encodings are valid.
    gd!("conditionally_select (both operands lazily allocated from encodings), result forced", EncEncB, W, |env, a, b, c, m| {
        let cs = new_cs(prove_mode());
        let (sa, sb) = (&env.encs[a].1, &env.encs[b].1);
        let cond = c == 1;
        let na = Encoding(refmodel::fld::to32(sa)).vartime_decompress().ok();
        let nb = Encoding(refmodel::fld::to32(sb)).vartime_decompress().ok();
        let native = match (na, nb) {
            (Some(x), Some(y)) => Some(if cond { x } else { y }),
            _ => None,
        };
        let r = (|| {
            let va = <ElementVar as AllocVar<Fq, Fq>>::new_variable(cs.clone(), || Ok(fq(sa)), m)?;
            let vb = <ElementVar as AllocVar<Fq, Fq>>::new_variable(cs.clone(), || Ok(fq(sb)), m)?;
            let v = ElementVar::conditionally_select(&Boolean::new_witness(cs.clone(), || Ok(cond))?, &va, &vb)?;
            let _ = v.negate()?;
            let _ = v.compress_to_field()?;
            Ok(v)
        })();
        chk_el(&cs, r, native)
    });
    gd!("a + &b / is_eq (both operands lazily allocated from encodings)", EncEncB, W, |env, a, b, c, m| {
        let cs = new_cs(prove_mode());
        let (sa, sb) = (&env.encs[a].1, &env.encs[b].1);
        let na = Encoding(refmodel::fld::to32(sa)).vartime_decompress().ok();
        let nb = Encoding(refmodel::fld::to32(sb)).vartime_decompress().ok();
        let native = match (na, nb) {
            (Some(x), Some(y)) => Some(x + y),
            _ => None,
        };
        let r = (|| {
            let va = <ElementVar as AllocVar<Fq, Fq>>::new_variable(cs.clone(), || Ok(fq(sa)), m)?;
            let vb = <ElementVar as AllocVar<Fq, Fq>>::new_variable(cs.clone(), || Ok(fq(sb)), m)?;
            if c == 1 {
                let _ = va.is_eq(&vb)?;
            }
            let v = va + &vb;
            let _ = v.compress_to_field()?;
            Ok(v)
        })();
        chk_el(&cs, r, native)
    });
    gd!("conditionally_select", EEB, W, |env, a, b, c, m| {
        let cs = new_cs(prove_mode());
        let (x, y) = (env.els[a].1, env.els[b].1);
        let cond = c == 1;
        chk_el(&cs, alloc_el(&cs, x, m).and_then(|va| ElementVar::conditionally_select(&Boolean::new_witness(cs.clone(), || Ok(cond))?, &va, &alloc_el(&cs, y, AllocationMode::Witness)?)), Some(if cond { x } else { y }))
    });
    gd!("conditionally_select (constant condition)", EEB, W, |env, a, b, c, m| {
        let cs = new_cs(prove_mode());
        let (x, y) = (env.els[a].1, env.els[b].1);
        let cond = c == 1;
        chk_el(&cs, alloc_el(&cs, x, m).and_then(|va| ElementVar::conditionally_select(&Boolean::constant(cond), &va, &alloc_el(&cs, y, AllocationMode::Witness)?)), Some(if cond { x } else { y }))
    });
    gd!("conditional_enforce_equal (constant condition)", EEB, W, |env, a, b, c, m| {
        let cs = new_cs(prove_mode());
        let (x, y) = (env.els[a].1, env.els[b].1);
        let cond = c == 1;
        chk_enforce(&cs, alloc_el(&cs, x, m).and_then(|va| va.conditional_enforce_equal(&alloc_el(&cs, y, AllocationMode::Witness)?, &Boolean::constant(cond))), !cond || x == y)
    });
    gd!("scalar_mul_le (constant bits)", ES, WC, |env, a, _, s, m| {
        let cs = new_cs(prove_mode());
        let e = env.els[a].1;
        let k = &env.scalars[s].1;
        let native = e * fr(&(k % &env.dc.r));
        let r = alloc_el(&cs, e, m).and_then(|v| {
            let bv: Vec<Boolean<Fq>> = (0..256).map(|i| Boolean::constant(k.bit(i))).collect();
            v.scalar_mul_le(bv.iter())
        });
        chk_el(&cs, r, Some(native))
    });
    gd!("scalar_mul_le (input bits via UInt8)", ES, W, |env, a, _, s, m| {
        let cs = new_cs(prove_mode());
        let e = env.els[a].1;
        let k = &env.scalars[s].1;
        let native = e * fr(&(k % &env.dc.r));
        let bytes = refmodel::fld::to32(k);
        let r = alloc_el(&cs, e, m).and_then(|v| {
            let wv = UInt8::new_input_vec(cs.clone(), &bytes)?;
            v.scalar_mul_le(wv.to_bits_le()?.iter())
        });
        chk_el(&cs, r, Some(native))
    });
    gd!("to_bits_le / to_bytes", E, W, |env, a, _, _, m| {
        let cs = new_cs(prove_mode());
        let e = env.els[a].1;
        let r = alloc_el(&cs, e, m).and_then(|v| {
            let bits = v.to_bits_le()?;
            let bytes = v.to_bytes()?;
            let xy = v.verif_xy_values();
            Ok((bits.value()?, bytes.value()?, xy))
        });
        let synth = sat_of(&cs, &r);
        let value_ok = r.ok().map(|(bits, bytes, xy)| {
            // little-endian bits / bytes of the variable's own affine x then y
            let (x, y) = xy.expect("element materialised");
            let mut want_bytes = x.to_bytes_le().to_vec();
            want_bytes.extend_from_slice(&y.to_bytes_le());
            let want_bits: Vec<bool> = [x, y].iter().flat_map(|c| { let b = fq_big(c); (0..253).map(move |i| b.bit(i)).collect::<Vec<_>>() }).collect();
            bytes == want_bytes && bits == want_bits
        });
        Chk { synth, native_ok: true, value_ok, detail: "bits/bytes of (x, y)".into() }
    });
    // ---- FqVar extension gadgets
    gd!("isqrt", F, ALL, |env, a, _, _, m| {
        let cs = new_cs(prove_mode());
        let x = fq(&env.fqs[a].1);
        let (nf, ny) = Fq::sqrt_ratio_zeta(&Fq::ONE, &x);
        let r = alloc_fq(&cs, x, m).and_then(|v| v.isqrt()).and_then(|(f, y)| Ok((f.value()?, y.value()?)));
        let synth = sat_of(&cs, &r);
        let value_ok = r.ok().map(|(f, y)| f == nf && y == ny);
        Chk { synth, native_ok: true, value_ok, detail: format!("native ({nf}, {})", fq_big(&ny)) }
    });
    gd!("is_negative", F, ALL, |env, a, _, _, m| {
        let cs = new_cs(prove_mode());
        let xb = &env.fqs[a].1;
        chk_bool(&cs, alloc_fq(&cs, fq(xb), m).and_then(|v| v.is_negative()), xb.bit(0))
    });
    gd!("is_nonnegative", F, ALL, |env, a, _, _, m| {
        let cs = new_cs(prove_mode());
        let xb = &env.fqs[a].1;
        chk_bool(&cs, alloc_fq(&cs, fq(xb), m).and_then(|v| v.is_nonnegative()), !xb.bit(0))
    });
    gd!("abs", F, ALL, |env, a, _, _, m| {
        let cs = new_cs(prove_mode());
        let xb = &env.fqs[a].1;
        let want = if xb.bit(0) { env.dc.f().neg(xb) } else { xb.clone() };
        chk_fq(&cs, alloc_fq(&cs, fq(xb), m).and_then(|v| v.abs()), Some(fq(&want)))
    });
    g
}

pub fn eval_case(env: &Env, g: &Gadget, a: usize, b: usize, c: usize, m: AllocationMode) -> Outcome {
    let class = format!("{}/{}", g.name, mode_name(m));
    let chk = match guarded(|| (g.f)(env, a, b, c, m)) {
        Ok(c) => c,
        Err(msg) => Chk { synth: Synth::Err(format!("panic: {msg}")), native_ok: true, value_ok: Some(false), detail: "panic during synthesis".into() },
    };
    let case = describe(env, g, a, b, c, m);
    let key = format!("C13|{}|{}", g.name, mode_name(m));
    // A constant operand carries no constraint system; gadgets that must allocate witnesses
    // (isqrt and everything built on it) then fail with SynthesisError::MissingCS. The property
    // speaks of the allocation modes of elements, not of running witness-allocating gadgets on
    // constants, so this outcome is recorded as not applicable (see DESIGN.md section 7).
    if m == AllocationMode::Constant {
        if let Synth::Err(e) = &chk.synth {
            if e.contains("MissingCS") || e.contains("AssignmentMissing") {
                return Outcome::trivial(format!("{class}/not-applicable:constant-has-no-cs"));
            }
        }
    }
    if chk.native_ok {
        if !chk.synth.is_sat() {
            return Outcome::bad(class, Viol { key: format!("{key}|incomplete"), engine: "E3/C13".into(), case, expected: "constraint system satisfied (native operation succeeds)".into(), got: format!("{:?} {}", chk.synth, chk.detail) });
        }
        if chk.value_ok == Some(false) {
            return Outcome::bad(class, Viol { key: format!("{key}|value"), engine: "E3/C13".into(), case, expected: "gadget output == native output".into(), got: chk.detail });
        }
        Outcome::ok(format!("{class}/sat"))
    } else {
        if chk.synth.is_sat() {
            return Outcome::bad(class, Viol { key: format!("{key}|accepts-invalid"), engine: "E3/C13".into(), case, expected: "unsatisfied (native operation rejects)".into(), got: "satisfied with the honest prover".into() });
        }
        Outcome::ok(format!("{class}/unsat"))
    }
}

pub fn describe(env: &Env, g: &Gadget, a: usize, b: usize, c: usize, m: AllocationMode) -> Value {
    let (ia, ib): (Value, Value) = match g.inp {
        Inp::E | Inp::ES => (json!(env.els[a].0), Value::Null),
        Inp::EE | Inp::EEB => (json!(env.els[a].0), json!(env.els[b].0)),
        Inp::Enc => (json!({"name": env.encs[a].0, "s": env.encs[a].1.to_string()}), Value::Null),
        Inp::EncEncB => (json!({"name": env.encs[a].0, "s": env.encs[a].1.to_string()}), json!({"name": env.encs[b].0, "s": env.encs[b].1.to_string()})),
        Inp::F => (json!({"name": env.fqs[a].0, "x": env.fqs[a].1.to_string()}), Value::Null),
    };
    json!({"gadget": g.name, "mode": mode_name(m), "a": ia, "b": ib, "c": c, "ia": a, "ib": b})
}

fn grid(ctx: &Arc<Ctx>, env: &Env) {
    let gs = gadgets();
    let mut cases: Vec<(usize, usize, usize, usize, usize)> = vec![];
    // second-operand subset for pair gadgets (quick): identity, T2, G, G+T2, -G, 2G(Z=3), H
    let pair_b: Vec<usize> = {
        let want = ["Element::IDENTITY", "T2=(0,-1) [H1]", "Element::GENERATOR", "G+T2=(-x,-y) [H1]", "-G [H1]", "2G(Z=3) [H1]", "encode_to_curve(1)", "GENERATOR*r-1"];
        let mut v: Vec<usize> = want.iter().filter_map(|w| env.els.iter().position(|e| e.0 == *w)).collect();
        if !ctx.quick() {
            v = (0..env.els.len()).collect();
        }
        v
    };
    for (gi, g) in gs.iter().enumerate() {
        for (mi, _) in g.modes.iter().enumerate() {
            match g.inp {
                Inp::E => (0..env.els.len()).for_each(|a| cases.push((gi, mi, a, 0, 0))),
                Inp::Enc => (0..env.encs.len()).for_each(|a| cases.push((gi, mi, a, 0, 0))),
                Inp::F => (0..env.fqs.len()).for_each(|a| cases.push((gi, mi, a, 0, 0))),
                Inp::EE => {
                    for a in 0..env.els.len() {
                        for &b in &pair_b {
                            cases.push((gi, mi, a, b, 0));
                        }
                    }
                }
                Inp::EEB => {
                    for a in 0..env.els.len() {
                        for &b in &pair_b {
                            for c in 0..2 {
                                cases.push((gi, mi, a, b, c));
                            }
                        }
                    }
                }
                Inp::EncEncB => {
                    // second operand: every encoding in the thorough tier; in the quick tier every
                    // third one plus the first valid and the first invalid encoding
                    let mut bs: Vec<usize> = if ctx.quick() { (0..env.encs.len()).step_by(3).collect() } else { (0..env.encs.len()).collect() };
                    for want in [true, false] {
                        if let Some(i) = env.encs.iter().position(|e| e.2 == want) {
                            if !bs.contains(&i) {
                                bs.push(i);
                            }
                        }
                    }
                    for a in 0..env.encs.len() {
                        for &b in &bs {
                            for c in 0..2 {
                                cases.push((gi, mi, a, b, c));
                            }
                        }
                    }
                }
                Inp::ES => {
                    let els: Vec<usize> = if ctx.quick() { pair_b.clone() } else { (0..env.els.len()).collect() };
                    for a in els {
                        for s in 0..env.scalars.len() {
                            cases.push((gi, mi, a, 0, s));
                        }
                    }
                }
            }
        }
    }
    run_cases(
        ctx, "E3/C13", false,
        cases.par_iter(),
        |&&(gi, mi, a, b, c)| eval_case(env, &gs[gi], a, b, c, gs[gi].modes[mi]),
        |&&(gi, mi, a, b, c)| (format!("{}|{}", gs[gi].name, mode_name(gs[gi].modes[mi])), describe(env, &gs[gi], a, b, c, gs[gi].modes[mi])),
    );
    ctx.report.set("C13_grid", json!({"gadgets": gs.len(), "element_representatives": env.els.len(), "encoding_inputs": env.encs.len(), "invalid_encodings": env.encs.iter().filter(|e| !e.2).count(), "field_inputs": env.fqs.len(), "scalars": env.scalars.len(), "syntheses": cases.len()}));
    ctx.report.rule(format!("E3/C13[ark]: honest synthesis in Prove mode of {} gadgets x structured inputs ({} element representatives incl. both coset members / Z != 1 / both identity representatives, {} encodings of which {} invalid, {} field elements, {} scalars) x allocation modes = {} syntheses; satisfied <=> native success and output == native output", gs.len(), env.els.len(), env.encs.len(), env.encs.iter().filter(|e| !e.2).count(), env.fqs.len(), env.scalars.len(), cases.len()));
}

// -------------------------------------------------------------------------------------------
// E2: lazy-variable histories

#[derive(Clone, Copy, PartialEq, Eq, Hash, Debug)]
pub enum Op {
    Enc(u8),      // h.compress_to_field()
    Val(u8),      // h.value()   (forces the element)
    Cs(u8),       // h.cs()      (forces the element)
    IsEq(u8, u8), // h_i.is_eq(h_j)
    Clone01,      // h1 := h0.clone()
    Neg(u8),      // h_i := h_i.negate()
    Add(u8, u8),  // h_i := h_i.clone() + &h_j
    Dbl(u8),      // h_i.double_in_place()  (in-place mutation: any cached encoding must go)
}

#[derive(Clone, Copy, PartialEq, Eq, Hash, Debug)]
pub enum Init {
    WitnessFq,
    InputElement,
    WitnessElement,
    Elligator,
}
pub const INITS: [Init; 4] = [Init::WitnessFq, Init::InputElement, Init::WitnessElement, Init::Elligator];
pub const VALS: [&str; 3] = ["generator", "identity", "invalid/other-representative"];

#[derive(Clone, Debug)]
pub struct Snapshot {
    pub tags: Vec<u8>,
    pub n_constraints: usize,
    pub n_witness: usize,
    pub encs: Vec<Option<Fq>>,
    pub xys: Vec<Option<(Fq, Fq)>>,
}

pub struct Replay {
    pub snaps: Vec<Snapshot>,
    pub satisfied: Synth,
    pub rows: Vec<u64>,
    pub err: Option<String>,
}

fn snapshot(cs: &ConstraintSystemRef<Fq>, hs: &[ElementVar]) -> Snapshot {
    Snapshot {
        tags: hs.iter().map(|h| h.verif_lazy_state()).collect(),
        n_constraints: cs.num_constraints(),
        n_witness: cs.num_witness_variables(),
        encs: hs.iter().map(|h| h.verif_encoding_value()).collect(),
        xys: hs.iter().map(|h| h.verif_xy_values()).collect(),
    }
}

/// does the initial value make the decoding constraints unsatisfiable?
fn init_valid(init: Init, val: usize) -> bool {
    !(val == 2 && init == Init::WitnessFq)
}

/// replay a history on a fresh constraint system; snapshot after allocation and after each op
pub fn replay_history(dc: &Decaf, init: Init, val: usize, ops: &[Op]) -> Replay {
    let cs = new_cs(prove_mode());
    let g = Element::GENERATOR;
    let t2_twin = el_from_pt(&dc.c.other_rep(&dc.generator()), dc.f());
    let element: Element = match val {
        0 => g,
        1 => Element::IDENTITY,
        _ => t2_twin,
    };
    let enc: Fq = match val {
        0 => g.vartime_compress_to_field(),
        1 => Fq::zero(),
        _ => -g.vartime_compress_to_field(), // negative => invalid encoding
    };
    let r0: Fq = match val {
        0 => Fq::one(),
        1 => Fq::zero(),
        _ => Fq::from(2u64),
    };
    let mut snaps = vec![];
    let mut err = None;
    let res: SR<()> = (|| {
        let h0: ElementVar = match init {
            Init::WitnessFq => <ElementVar as AllocVar<Fq, Fq>>::new_witness(cs.clone(), || Ok(enc))?,
            Init::InputElement => <ElementVar as AllocVar<Element, Fq>>::new_input(cs.clone(), || Ok(element))?,
            Init::WitnessElement => <ElementVar as AllocVar<Element, Fq>>::new_witness(cs.clone(), || Ok(element))?,
            Init::Elligator => ElementVar::encode_to_curve(&FqVar::new_witness(cs.clone(), || Ok(r0))?)?,
        };
        let mut hs = vec![h0];
        snaps.push(snapshot(&cs, &hs));
        for op in ops {
            match *op {
                Op::Enc(i) => {
                    hs[i as usize].compress_to_field()?;
                }
                Op::Val(i) => {
                    let _ = guarded(|| hs[i as usize].value());
                }
                Op::Cs(i) => {
                    let _ = hs[i as usize].cs();
                }
                Op::IsEq(i, j) => {
                    hs[i as usize].is_eq(&hs[j as usize])?;
                }
                Op::Clone01 => {
                    let c = hs[0].clone();
                    hs.push(c);
                }
                Op::Neg(i) => {
                    hs[i as usize] = hs[i as usize].negate()?;
                }
                Op::Add(i, j) => {
                    hs[i as usize] = hs[i as usize].clone() + &hs[j as usize];
                }
                Op::Dbl(i) => {
                    use ark_r1cs_std::groups::CurveVar;
                    hs[i as usize].double_in_place()?;
                }
            }
            snaps.push(snapshot(&cs, &hs));
        }
        Ok(())
    })();
    if let Err(e) = &res {
        err = Some(format!("{e:?}"));
    }
    let satisfied = sat_of(&cs, &res);
    let (_, _, _, _, rows) = shape_digest(&cs);
    Replay { snaps, satisfied, rows, err }
}

/// model tags: 0 = Encoding, 1 = Element, 2 = Both
fn model_step(tags: &mut Vec<u8>, op: Op) {
    let force_el = |t: u8| if t == 0 { 2 } else { t };
    let force_enc = |t: u8| if t == 1 { 2 } else { t };
    match op {
        Op::Enc(i) => tags[i as usize] = force_enc(tags[i as usize]),
        Op::Val(i) | Op::Cs(i) => tags[i as usize] = force_el(tags[i as usize]),
        Op::IsEq(i, j) => {
            tags[i as usize] = force_el(tags[i as usize]);
            tags[j as usize] = force_el(tags[j as usize]);
        }
        Op::Clone01 => {
            let t = tags[0];
            tags.push(t);
        }
        Op::Neg(i) => {
            // self is forced, the result is a fresh Element-only variable replacing the handle
            tags[i as usize] = 1;
        }
        Op::Add(i, j) => {
            tags[j as usize] = force_el(tags[j as usize]);
            tags[i as usize] = 1;
        }
        Op::Dbl(i) => {
            // the variable now denotes 2P: element only, a cached encoding of P must be dropped
            tags[i as usize] = 1;
        }
    }
}
/// would the op emit nothing because everything it needs is already materialised?
fn is_noop(tags: &[u8], op: Op) -> bool {
    match op {
        Op::Enc(i) => tags[i as usize] != 1,
        Op::Val(i) | Op::Cs(i) => tags[i as usize] != 0,
        Op::Clone01 => true,
        _ => false,
    }
}

#[derive(Clone, Debug)]
pub struct LSt {
    pub init: Init,
    pub val: usize,
    pub hist: Vec<Op>,
    pub depth: u8,
    // canonical key
    pub tags: Vec<u8>,
    pub n_constraints: usize,
    pub n_witness: usize,
    pub rows_digest: u64,
    pub vals_digest: u64,
    pub bad: Option<&'static str>,
}
impl PartialEq for LSt {
    fn eq(&self, o: &Self) -> bool {
        (self.init, self.val, self.depth, &self.tags, self.n_constraints, self.n_witness, self.rows_digest, self.vals_digest, self.bad) == (o.init, o.val, o.depth, &o.tags, o.n_constraints, o.n_witness, o.rows_digest, o.vals_digest, o.bad)
    }
}
impl Eq for LSt {}
impl std::hash::Hash for LSt {
    fn hash<H: std::hash::Hasher>(&self, h: &mut H) {
        (self.init, self.val, self.depth, &self.tags, self.n_constraints, self.n_witness, self.rows_digest, self.vals_digest, self.bad).hash(h)
    }
}

pub struct LazyModel {
    pub dc: Decaf,
    pub max_depth: u8,
    pub n_replays: std::sync::atomic::AtomicU64,
    pub fails: dashmap::DashMap<Vec<Op>, String>,
}

fn vals_digest(s: &Snapshot) -> u64 {
    let mut v: Vec<Vec<u8>> = vec![];
    for e in &s.encs {
        v.push(e.map(|x| x.to_bytes_le().to_vec()).unwrap_or_default());
    }
    for xy in &s.xys {
        v.push(xy.map(|(x, y)| [x.to_bytes_le(), y.to_bytes_le()].concat()).unwrap_or_default());
    }
    h64(&v)
}

impl LazyModel {
    fn check_history(&self, init: Init, val: usize, hist: &[Op]) -> (Replay, Option<(&'static str, String)>) {
        self.n_replays.fetch_add(1, Ordering::Relaxed);
        let rp = replay_history(&self.dc, init, val, hist);
        if let Some(e) = &rp.err {
            if init_valid(init, val) {
                return (rp.clone_light(), Some(("synthesis-error", e.clone())));
            }
        }
        if rp.snaps.is_empty() {
            return (rp, None);
        }
        // model tags along the history
        let mut tags = vec![match init {
            Init::WitnessFq | Init::InputElement => 0u8,
            Init::WitnessElement | Init::Elligator => 1u8,
        }];
        if rp.snaps[0].tags != tags {
            return (rp.clone_light(), Some(("initial-tag", format!("real {:?} model {:?}", rp.snaps[0].tags, tags))));
        }
        for (k, op) in hist.iter().enumerate() {
            if k + 1 >= rp.snaps.len() {
                break;
            }
            let before = &rp.snaps[k];
            let after = &rp.snaps[k + 1];
            let noop = is_noop(&tags, *op);
            model_step(&mut tags, *op);
            if after.tags != tags {
                return (rp.clone_light(), Some(("state-machine", format!("after {:?}: real tags {:?}, model {:?}", &hist[..=k], after.tags, tags))));
            }
            if noop && (after.n_constraints != before.n_constraints || after.n_witness != before.n_witness) {
                return (rp.clone_light(), Some(("re-emission", format!("repeated forcing {:?} added {} constraints / {} variables", op, after.n_constraints - before.n_constraints, after.n_witness - before.n_witness))));
            }
            // whenever both halves of a handle are materialised they must denote the same element:
            // cached encoding == native encoding of the assigned coordinates (valid values only)
            if init_valid(init, val) {
                for h in 0..after.tags.len() {
                    if let (Some(e), Some((x, y))) = (after.encs[h], after.xys[h]) {
                        let el = Element::verif_from_coords_unchecked(x, y, Fq::from(1u64), x * y);
                        if el.vartime_compress_to_field() != e {
                            return (rp.clone_light(), Some(("stale-half", format!("after {:?}: handle {h} holds an encoding that is not the encoding of its element", &hist[..=k]))));
                        }
                    }
                }
            }
            if after.n_constraints < before.n_constraints {
                return (rp.clone_light(), Some(("constraints-removed", format!("{:?}", op))));
            }
            // values of handles that existed before and were not replaced must be unchanged
            let replaced: Option<u8> = match op {
                Op::Neg(i) | Op::Add(i, _) | Op::Dbl(i) => Some(*i),
                _ => None,
            };
            for h in 0..before.tags.len() {
                if Some(h as u8) == replaced {
                    continue;
                }
                if before.encs[h].is_some() && before.encs[h] != after.encs[h] {
                    return (rp.clone_light(), Some(("value-changed", format!("encoding of handle {h} changed by {:?}", op))));
                }
                if before.xys[h].is_some() && before.xys[h] != after.xys[h] {
                    return (rp.clone_light(), Some(("value-changed", format!("coordinates of handle {h} changed by {:?}", op))));
                }
            }
        }
        // completeness: satisfied <=> the initial value is valid
        let want_sat = init_valid(init, val);
        // an invalid encoding only becomes unsatisfiable once the element half is forced
        let forced = rp.snaps.last().map(|s| s.tags.iter().any(|t| *t == 2) || rp.snaps.iter().any(|s| s.tags.iter().any(|t| *t != 0))).unwrap_or(false);
        if want_sat && !rp.satisfied.is_sat() {
            return (rp.clone_light(), Some(("incomplete", format!("{:?} on a valid value", rp.satisfied))));
        }
        if !want_sat && forced && rp.satisfied.is_sat() {
            return (rp.clone_light(), Some(("accepts-invalid", "invalid encoding forced to an element, yet satisfied".into())));
        }
        (rp, None)
    }
}
impl Replay {
    fn clone_light(&self) -> Replay {
        Replay { snaps: self.snaps.clone(), satisfied: self.satisfied.clone(), rows: self.rows.clone(), err: self.err.clone() }
    }
}

impl Model for LazyModel {
    type State = LSt;
    type Action = Op;
    fn init_states(&self) -> Vec<LSt> {
        let mut v = vec![];
        for init in INITS {
            for val in 0..3 {
                let (rp, bad) = self.check_history(init, val, &[]);
                let s = rp.snaps.last().cloned().unwrap_or(Snapshot { tags: vec![], n_constraints: 0, n_witness: 0, encs: vec![], xys: vec![] });
                if let Some((_, m)) = &bad {
                    self.fails.insert(vec![], m.clone());
                }
                v.push(LSt { init, val, hist: vec![], depth: 0, tags: s.tags.clone(), n_constraints: s.n_constraints, n_witness: s.n_witness, rows_digest: h64(&rp.rows), vals_digest: vals_digest(&s), bad: bad.map(|b| b.0) });
            }
        }
        v
    }
    fn actions(&self, s: &LSt, out: &mut Vec<Op>) {
        if s.bad.is_some() || s.depth >= self.max_depth {
            return;
        }
        let n = s.tags.len() as u8;
        for i in 0..n {
            out.push(Op::Enc(i));
            out.push(Op::Val(i));
            out.push(Op::Cs(i));
            out.push(Op::Neg(i));
            out.push(Op::Dbl(i));
            for j in 0..n {
                out.push(Op::IsEq(i, j));
                out.push(Op::Add(i, j));
            }
        }
        if n == 1 {
            out.push(Op::Clone01);
        }
    }
    fn next_state(&self, s: &LSt, op: Op) -> Option<LSt> {
        let mut hist = s.hist.clone();
        hist.push(op);
        let (rp, mut bad) = self.check_history(s.init, s.val, &hist);
        // constraints already emitted are unchanged: the parent's rows are a prefix of ours
        if bad.is_none() {
            let pre = &rp.rows[..s.n_constraints.min(rp.rows.len())];
            if rp.rows.len() < s.n_constraints || h64(&pre.to_vec()) != s.rows_digest {
                bad = Some(("prefix-changed", format!("rows of the first {} constraints differ after {:?}", s.n_constraints, op)));
            }
        }
        if let Some((_, m)) = &bad {
            self.fails.insert(hist.clone(), m.clone());
        }
        let sn = rp.snaps.last().cloned().unwrap_or(Snapshot { tags: s.tags.clone(), n_constraints: 0, n_witness: 0, encs: vec![], xys: vec![] });
        Some(LSt { init: s.init, val: s.val, hist, depth: s.depth + 1, tags: sn.tags.clone(), n_constraints: rp.rows.len(), n_witness: sn.n_witness, rows_digest: h64(&rp.rows), vals_digest: vals_digest(&sn), bad: bad.map(|b| b.0) })
    }
    fn properties(&self) -> Vec<Property<Self>> {
        vec![Property::always("C13:lazy_variable_conforms_to_3_state_model", |_, s: &LSt| s.bad.is_none())]
    }
}

fn lazy(ctx: &Arc<Ctx>) {
    let depth: u8 = std::env::var("VERIF_LAZY_DEPTH").ok().and_then(|s| s.parse().ok()).unwrap_or(ctx.t(4, 5));
    let lm = LazyModel { dc: Decaf::new(), max_depth: depth, n_replays: 0.into(), fails: dashmap::DashMap::new() };
    let (stats, disc) = run_bfs(&lm);
    let r = &ctx.report;
    r.states.fetch_add(stats.unique, Ordering::Relaxed);
    r.transitions.fetch_add(stats.generated, Ordering::Relaxed);
    r.traces.fetch_add(lm.n_replays.load(Ordering::Relaxed), Ordering::Relaxed);
    r.distinct_extra.fetch_add(stats.unique, Ordering::Relaxed);
    r.set("C13_lazy", json!({"engine": "E2 history explorer (bfs.rs over replayed histories)", "depth": depth, "states_per_depth": stats.per_depth, "histories_replayed_on_fresh_constraint_systems": lm.n_replays.load(Ordering::Relaxed), "initial_allocations": 4, "initial_values": 3}));
    for d in disc {
        let last = d.states.last().unwrap();
        let msg = lm.fails.get(&last.hist).map(|m| m.clone()).unwrap_or_default();
        ctx.violation(Viol {
            key: format!("C13|lazy|{}|{:?}", last.bad.unwrap_or("?"), last.hist.last()),
            engine: "E2/C13-lazy".into(),
            case: json!({"init": format!("{:?}", last.init), "value": VALS[last.val], "val": last.val, "history": last.hist.iter().map(|o| format!("{o:?}")).collect::<Vec<_>>()}),
            expected: "lazy variable behaves as the 3-state machine: tags follow the model, repeated forcing emits nothing, emitted constraints and values unchanged, satisfied <=> valid".into(),
            got: format!("{}: {msg}", last.bad.unwrap_or("?")),
        });
    }
    r.sample("E2/lazy-history", || json!({"init": "WitnessFq", "value": "generator", "history": ["Enc(0)", "Val(0)", "Clone01", "IsEq(0, 1)"]}));
    r.rule(format!("E2/C13-lazy[ark]: all operation histories of length <= {depth} over {{compress_to_field, value, cs, negate, double_in_place, is_eq, +, clone}} on <= 2 handles from 4 allocation kinds x 3 values; a state is a history replayed on a fresh ConstraintSystem; dedup key = (lazy tags via hook H3, #constraints, #witnesses, digest of the finalised A/B/C rows, digest of assigned values, depth)"));
}

pub fn parse_op(s: &str) -> Option<Op> {
    let nums: Vec<u8> = s.chars().filter(|c| c.is_ascii_digit()).map(|c| c as u8 - b'0').collect();
    Some(if s.starts_with("Enc") {
        Op::Enc(nums[0])
    } else if s.starts_with("Val") {
        Op::Val(nums[0])
    } else if s.starts_with("Cs") {
        Op::Cs(nums[0])
    } else if s.starts_with("IsEq") {
        Op::IsEq(nums[0], nums[1])
    } else if s.starts_with("Clone01") {
        Op::Clone01
    } else if s.starts_with("Neg") {
        Op::Neg(nums[0])
    } else if s.starts_with("Dbl") {
        Op::Dbl(nums[0])
    } else if s.starts_with("Add") {
        Op::Add(nums[0], nums[1])
    } else {
        return None;
    })
}

pub fn run(ctx: &Arc<Ctx>) {
    let env = Env::new();
    grid(ctx, &env);
    lazy(ctx);
    ctx.report.assume("C13: ark-relations' ConstraintSystem::is_satisfied is the constraint evaluator; synthesis errors raised on constants (Unsatisfiable) count as 'not satisfied'");
}

pub fn replay(case: &Value) -> (bool, Value) {
    if case["history"].is_array() {
        let lm = LazyModel { dc: Decaf::new(), max_depth: 255, n_replays: 0.into(), fails: dashmap::DashMap::new() };
        let init = INITS.iter().find(|i| Some(format!("{i:?}").as_str()) == case["init"].as_str()).cloned().unwrap_or(Init::WitnessFq);
        let val = case["val"].as_u64().unwrap_or(0) as usize;
        let hist: Vec<Op> = case["history"].as_array().unwrap().iter().filter_map(|x| parse_op(x.as_str()?)).collect();
        // check every prefix, including the prefix property between consecutive prefixes
        let mut prev_rows: Vec<u64> = vec![];
        for k in 0..=hist.len() {
            let (rp, bad) = lm.check_history(init, val, &hist[..k]);
            if let Some((w, m)) = bad {
                return (false, json!({"prefix": k, "what": w, "detail": m}));
            }
            if rp.rows.len() < prev_rows.len() || rp.rows[..prev_rows.len()] != prev_rows[..] {
                return (false, json!({"prefix": k, "what": "prefix-changed"}));
            }
            prev_rows = rp.rows;
        }
        return (true, json!({"result": "history conforms to the 3-state model"}));
    }
    let env = Env::new();
    let gs = gadgets();
    let g = match gs.iter().find(|g| Some(g.name) == case["gadget"].as_str()) {
        Some(g) => g,
        None => return (false, json!({"error": "unknown gadget"})),
    };
    let m = MODES.iter().find(|m| Some(mode_name(**m)) == case["mode"].as_str()).cloned().unwrap_or(AllocationMode::Witness);
    let o = eval_case(&env, g, case["ia"].as_u64().unwrap_or(0) as usize, case["ib"].as_u64().unwrap_or(0) as usize, case["c"].as_u64().unwrap_or(0) as usize, m);
    match o.viol {
        Some(v) => (false, json!({"expected": v.expected, "got": v.got})),
        None => (true, json!({"class": o.class})),
    }
}
