//! Univariate polynomials over a prime field and root finding (Cantor-Zassenhaus, distinct
//! linear factors). Used to SOLVE for high-level inputs (an Elligator r0, an encoding s, a curve
//! point) whose inner inverse-square-root argument falls in a chosen control class of the
//! table-driven square-root algorithm. Naive arithmetic; polynomials are coefficient vectors,
//! lowest degree first, always trimmed.
use crate::fld::Fld;
use num_bigint::BigUint;
use num_traits::{One, Zero};

pub type Poly = Vec<BigUint>;

pub fn trim(mut a: Poly) -> Poly {
    while a.last().map(|c| c.is_zero()).unwrap_or(false) {
        a.pop();
    }
    a
}
pub fn deg(a: &Poly) -> isize {
    a.len() as isize - 1
}
pub fn add(f: &Fld, a: &Poly, b: &Poly) -> Poly {
    let n = a.len().max(b.len());
    let z = BigUint::zero();
    trim((0..n).map(|i| f.add(a.get(i).unwrap_or(&z), b.get(i).unwrap_or(&z))).collect())
}
pub fn sub(f: &Fld, a: &Poly, b: &Poly) -> Poly {
    let n = a.len().max(b.len());
    let z = BigUint::zero();
    trim((0..n).map(|i| f.sub(a.get(i).unwrap_or(&z), b.get(i).unwrap_or(&z))).collect())
}
pub fn mul(f: &Fld, a: &Poly, b: &Poly) -> Poly {
    if a.is_empty() || b.is_empty() {
        return vec![];
    }
    let mut out = vec![BigUint::zero(); a.len() + b.len() - 1];
    for (i, x) in a.iter().enumerate() {
        for (j, y) in b.iter().enumerate() {
            out[i + j] = f.add(&out[i + j], &f.mul(x, y));
        }
    }
    trim(out)
}
pub fn scale(f: &Fld, a: &Poly, k: &BigUint) -> Poly {
    trim(a.iter().map(|c| f.mul(c, k)).collect())
}
/// remainder of a modulo m (m non-zero)
pub fn rem(f: &Fld, a: &Poly, m: &Poly) -> Poly {
    let mut r = trim(a.clone());
    let dm = deg(m);
    assert!(dm >= 0);
    let lead_inv = f.inv(m.last().unwrap()).unwrap();
    while deg(&r) >= dm {
        let k = f.mul(r.last().unwrap(), &lead_inv);
        let shift = (deg(&r) - dm) as usize;
        for (i, c) in m.iter().enumerate() {
            r[i + shift] = f.sub(&r[i + shift], &f.mul(c, &k));
        }
        r = trim(r);
    }
    r
}
pub fn monic(f: &Fld, a: &Poly) -> Poly {
    if a.is_empty() {
        return vec![];
    }
    let li = f.inv(a.last().unwrap()).unwrap();
    scale(f, a, &li)
}
pub fn gcd(f: &Fld, a: &Poly, b: &Poly) -> Poly {
    let (mut x, mut y) = (trim(a.clone()), trim(b.clone()));
    while !y.is_empty() {
        let r = rem(f, &x, &y);
        x = y;
        y = r;
    }
    monic(f, &x)
}
/// base^e mod m
pub fn powmod(f: &Fld, base: &Poly, e: &BigUint, m: &Poly) -> Poly {
    let mut acc: Poly = vec![BigUint::one()];
    let b = rem(f, base, m);
    for i in (0..e.bits()).rev() {
        acc = rem(f, &mul(f, &acc, &acc), m);
        if e.bit(i) {
            acc = rem(f, &mul(f, &acc, &b), m);
        }
    }
    acc
}
pub fn eval(f: &Fld, a: &Poly, x: &BigUint) -> BigUint {
    let mut acc = BigUint::zero();
    for c in a.iter().rev() {
        acc = f.add(&f.mul(&acc, x), c);
    }
    acc
}

/// all roots in F_p of `a` (without multiplicity), in ascending order
pub fn roots(f: &Fld, a: &Poly) -> Vec<BigUint> {
    let a = monic(f, &trim(a.clone()));
    if deg(&a) <= 0 {
        return vec![];
    }
    // g = gcd(a, x^p - x): product of the distinct linear factors
    let x: Poly = vec![BigUint::zero(), BigUint::one()];
    let xp = powmod(f, &x, &f.p, &a);
    let g = gcd(f, &a, &sub(f, &xp, &x));
    let mut out = vec![];
    split(f, &g, &mut out, 1);
    out.sort();
    out.dedup();
    out
}
fn split(f: &Fld, g: &Poly, out: &mut Vec<BigUint>, mut c: u64) {
    match deg(g) {
        d if d <= 0 => {}
        1 => out.push(f.neg(&f.mul(&g[0], &f.inv(&g[1]).unwrap()))),
        _ => {
            let half = (&f.p - 1u32) >> 1;
            loop {
                // h = gcd(g, (x + c)^((p-1)/2) - 1)
                let xc: Poly = vec![BigUint::from(c), BigUint::one()];
                let w = powmod(f, &xc, &half, g);
                let h = gcd(f, g, &sub(f, &w, &vec![BigUint::one()]));
                c += 1;
                if deg(&h) > 0 && deg(&h) < deg(g) {
                    let (q, r) = divmod(f, g, &h);
                    debug_assert!(r.is_empty());
                    split(f, &h, out, c);
                    split(f, &q, out, c);
                    return;
                }
                assert!(c < 200, "root splitting did not terminate");
            }
        }
    }
}
pub fn divmod(f: &Fld, a: &Poly, m: &Poly) -> (Poly, Poly) {
    let mut r = trim(a.clone());
    let dm = deg(m);
    let mut q = vec![BigUint::zero(); (deg(a) - dm + 1).max(0) as usize];
    let lead_inv = f.inv(m.last().unwrap()).unwrap();
    while deg(&r) >= dm {
        let k = f.mul(r.last().unwrap(), &lead_inv);
        let shift = (deg(&r) - dm) as usize;
        q[shift] = k.clone();
        for (i, c) in m.iter().enumerate() {
            r[i + shift] = f.sub(&r[i + shift], &f.mul(c, &k));
        }
        r = trim(r);
    }
    (trim(q), r)
}
