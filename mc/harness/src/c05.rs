//! C05 (E3 part) -- scalar multiplication on a flat grid of structured scalars x every
//! representative seed x every scalar-multiplication form, and multi-scalar multiplication on
//! all vectors of length 0..=3. Reuses the explorer's forms, seeds and conformance relation.
use crate::core::*;
use crate::explorer::*;
use crate::sut::*;
use num_bigint::BigUint;
use num_traits::{One, Zero};
use rayon::prelude::*;
use refmodel::group::V2;
use serde_json::{json, Value};
use stateright::Model;
use std::sync::Arc;

/// K: structured scalars, each with the limb length it is presented with
pub fn scalar_set(r: &BigUint, quick: bool) -> Vec<(String, BigUint, usize)> {
    let mut v: Vec<(String, BigUint, usize)> = vec![];
    let nl = |k: &BigUint| ((k.bits() as usize + 63) / 64).max(1);
    let mut push = |n: String, k: BigUint, l: usize| v.push((n, k, l));
    for i in 0..4u32 {
        push(format!("{i}"), BigUint::from(i), 4);
    }
    push("r-1".into(), r - 1u32, 4);
    push("r-2".into(), r - 2u32, 4);
    push("(r-1)/2".into(), (r - 1u32) >> 1, 4);
    push("(r+1)/2".into(), (r + 1u32) >> 1, 4);
    push("r".into(), r.clone(), 4);
    push("r+1".into(), r + 1u32, 4);
    push("2r-1".into(), r * 2u32 - 1u32, 4);
    push("2r".into(), r * 2u32, 4);
    let step = if quick { 8 } else { 1 };
    for i in (0..=320u32).filter(|i| i % step == 0 || i % 64 <= 1 || i % 64 == 63 || (248..=256).contains(i)) {
        let t = BigUint::one() << i;
        push(format!("2^{i}"), t.clone(), nl(&t).max(1));
        if i > 0 {
            let m = &t - 1u32;
            push(format!("2^{i}-1"), m.clone(), nl(&m));
        }
    }
    // each 64-bit limb independently 0 or all-ones, 1..=5 limbs (leading zero limbs kept)
    for n in 1..=5usize {
        for mask in 0..(1u32 << n) {
            let mut k = BigUint::zero();
            for j in 0..n {
                if mask >> j & 1 == 1 {
                    k += BigUint::from(u64::MAX) << (64 * j);
                }
            }
            push(format!("limbs{n}:{mask:05b}"), k, n);
        }
    }
    // recoding / carry-chain patterns: adjacent limb pairs over the classic worst cases of k -> 3k
    // and of windowed recodings (0x5555.., 0xAAAA.., their successors, 2^63 +- 1, all-ones)
    {
        let pat: [u64; 9] = [0, 1, 0x5555_5555_5555_5555, 0x5555_5555_5555_5556, 0xAAAA_AAAA_AAAA_AAAA, 0xAAAA_AAAA_AAAA_AAAB, 0x7FFF_FFFF_FFFF_FFFF, 0x8000_0000_0000_0000, u64::MAX];
        for pos in 0..3usize {
            for (ai, a) in pat.iter().enumerate() {
                for (bi, b) in pat.iter().enumerate() {
                    if quick && !(ai >= 2 || bi >= 2) {
                        continue;
                    }
                    for bg in [0u64, 0x0123_4567_89AB_CDEF] {
                        let mut l = [bg; 4];
                        l[3] = bg & 0x00FF_FFFF_FFFF_FFFF; // keep below r
                        l[pos] = *a;
                        l[pos + 1] = if pos + 1 == 3 { *b & 0x00FF_FFFF_FFFF_FFFF } else { *b };
                        let k = refmodel::fld::from_limbs(&l);
                        push(format!("carry:{pos}:{ai}:{bi}:{}", (bg != 0) as u8), k, 4);
                    }
                }
            }
        }
    }
    // exceptional cases of addition chains: integers k (reduced and unreduced) for which a
    // double-and-add ladder meets "accumulator == +-addend" or "accumulator == identity" at some
    // step i, which is where a dedicated (incomplete) addition or a skipped step goes wrong.
    //   right-to-left:  (k mod 2^i) = +-2^i (mod r) with bit i set
    //   left-to-right:  (k >> i)   = 0, +-1 (mod r)  for i > 0, i.e. a prefix m*r or m*r +- 1
    {
        let steps: Vec<u32> = if quick { vec![1, 63, 64, 65, 127, 128, 200, 251, 252, 253, 254, 255, 256, 300, 319] } else { (1..=320u32).collect() };
        for &i in &steps {
            let ti = BigUint::one() << i;
            let res = &ti % r;
            // suffix congruent to +-2^i, as an integer below 2^i (needs 2^i > the residue)
            for (sg, low0) in [("+", res.clone()), ("-", (r - &res) % r)] {
                let mut low = low0;
                let mut m = 0u32;
                while low < ti && m < 2 {
                    if !low.is_zero() {
                        for hi in 0..2u32 {
                            let k = &low + &ti + (BigUint::from(hi) << (i + 1));
                            if k.bits() <= 384 {
                                push(format!("chain:suffix{sg}2^{i}:m{m}:h{hi}"), k.clone(), nl(&k));
                            }
                        }
                    }
                    low += r;
                    m += 1;
                }
            }
            // prefix m*r + e, e in {-1, 0, 1}, followed by i low bits
            for m in 1..=2u32 {
                for e in [-1i32, 0, 1] {
                    let pre = if e < 0 { r * m - 1u32 } else { r * m + e as u32 };
                    for (ln, low) in [("0", BigUint::zero()), ("1", BigUint::one()), ("ones", &ti - 1u32)] {
                        let k = (&pre << i) + low;
                        if k.bits() <= 384 && (i % 8 == 0 || i < 4 || (250..=258).contains(&i) || !quick) {
                            push(format!("chain:prefix{m}r{e:+}:<<{i}:{ln}"), k.clone(), nl(&k));
                        }
                    }
                }
            }
        }
    }
    // scalars whose INTERNAL (Montgomery) representation is a structured limb pattern: k = m/R mod r
    // (what a shortcut comparing against a constant built from the wrong limb domain matches)
    for (i, k) in crate::fields::mont_patterns(r, 32, 0).into_iter().enumerate() {
        if !quick || i % 2 == 0 || i < 4 {
            push(format!("montgomery-pattern:{i}"), k, 4);
        }
    }
    // short and over-long presentations of small values
    push("5 (1 limb)".into(), BigUint::from(5u32), 1);
    push("5 (8 limbs)".into(), BigUint::from(5u32), 8);
    push("empty limb list".into(), BigUint::zero(), 0);
    v
}

pub fn run(ctx: &Arc<Ctx>) {
    let base = build_model(Sel::C05, 1);
    let r = base.gm.dc.r.clone();
    let ks = scalar_set(&r, ctx.quick());
    let gm = build_model_ex(Sel::C05, 1, Some(ks.clone()));
    let seeds: Vec<St> = gm.init_states();
    let mul_forms: Vec<usize> = gm.forms.iter().enumerate().filter(|(_, f)| f.cat == Cat::Mul).map(|(i, _)| i).collect();
    // (seed, form, scalar) triples where the form applies
    let mut cases: Vec<(usize, usize, usize)> = vec![];
    for (si, s) in seeds.iter().enumerate() {
        for &fi in &mul_forms {
            let f = &gm.forms[fi];
            if f.on != s.kind {
                continue;
            }
            for (ki, k) in gm.scalars.iter().enumerate() {
                if f.arg == Arg::ScalarFr && !k.fr_ok {
                    continue;
                }
                cases.push((si, fi, ki));
            }
        }
    }
    run_cases(
        ctx, "E3/C05-grid", false,
        cases.par_iter(),
        |&&(si, fi, ki)| {
            let st = gm.step(&seeds[si], Act { form: fi as u16, a: ki as u16, b: NONE });
            let k = &gm.scalars[ki];
            let class = format!("{}/{}", gm.forms[fi].name, if !k.fr_ok { ">=r" } else if k.big.is_zero() { "0" } else { "<r" });
            if st.bad != 0 {
                let p = gm.pt(&st.m);
                return Outcome::bad(class, Viol {
                    key: format!("C05|grid|{}", gm.forms[fi].name),
                    engine: "E3/C05-grid".into(),
                    case: json!({"seed": gm.seeds_name(&seeds[si]), "form": gm.forms[fi].name, "k": k.name, "k_limbs": k.limbs.iter().map(|x| x.to_string()).collect::<Vec<_>>()}),
                    expected: format!("k*P = class of ({}, {})", p.x, p.y),
                    got: format!("{:?}", hex_coords(&st.c)),
                });
            }
            Outcome::ok(class)
        },
        |&&(si, fi, ki)| (format!("{}", gm.forms[fi].name), json!({"seed": gm.seeds_name(&seeds[si]), "form": gm.forms[fi].name, "k": gm.scalars[ki].name, "k_limbs": gm.scalars[ki].limbs.iter().map(|x| x.to_string()).collect::<Vec<_>>()})),
    );
    ctx.report.set("C05_grid", json!({"scalars": ks.len(), "seeds": seeds.len(), "mul_forms": mul_forms.len(), "cases": cases.len()}));
    ctx.report.rule(format!("E3/C05[{BUILD}]: {} structured scalars (0..3, r-2..r+1, 2r-1, 2r, (r+-1)/2, 2^i and 2^i-1 up to i=320, every 0/all-ones pattern of 1..5 limbs, adjacent-limb carry patterns 0x55../0xAA../2^63+-1, addition-chain exceptional cases (suffix = +-2^i mod r with bit i set; prefix m*r, m*r+-1) reduced and unreduced, short/over-long/empty limb lists) x {} representative seeds x {} scalar-multiplication forms; result compared with k mod r in the module model concretised by the reference double-and-add", ks.len(), seeds.len(), mul_forms.len()));
    #[cfg(feature = "ark")]
    msm(ctx, &gm);
}

impl GM {
    pub fn seeds_name(&self, s: &St) -> String {
        self.seeds.iter().find(|sd| sd.val.coords() == s.c && sd.m == s.m && sd.val.kind() == s.kind).map(|x| x.name.clone()).unwrap_or("?".into())
    }
}

/// multi-scalar multiplication: all vectors of length 0..=3 over 6 scalars x 6 points
#[cfg(feature = "ark")]
fn msm(ctx: &Arc<Ctx>, gm: &GM) {
    use ark_ec::VariableBaseMSM;
    let r = &gm.gm.dc.r;
    let mut sc: Vec<(String, BigUint)> = vec![("0".into(), BigUint::zero()), ("1".into(), BigUint::one()), ("2".into(), BigUint::from(2u32)), ("r-1".into(), r - 1u32), ("(r+1)/2".into(), (r + 1u32) >> 1), ("2^250".into(), BigUint::one() << 250)];
    let base_scalars = sc.len();
    // recoding / carry patterns (used in vectors of length 1 and 2 only)
    for (n, k, _) in scalar_set(r, true).into_iter().filter(|(n, k, _)| n.starts_with("carry:") && k < r) {
        sc.push((n, k));
    }
    let pts: Vec<usize> = vec![0, 1, 2, 4, 5, 6]; // pool: identity, T2, G, G+T2, 2G(Z=3), H
    let n = base_scalars * pts.len();
    let mut vecs: Vec<Vec<usize>> = vec![vec![]];
    for a in 0..n {
        vecs.push(vec![a]);
        for b in 0..n {
            vecs.push(vec![a, b]);
            if !ctx.quick() || (a % 5 == 0) {
                for c in 0..n {
                    vecs.push(vec![a, b, c]);
                }
            }
        }
    }
    // pattern scalars: alone on G and H, and paired with (2, G)
    for si in base_scalars..sc.len() {
        for pi in [2usize, 5] {
            let t = si * pts.len() + pi;
            vecs.push(vec![t]);
            vecs.push(vec![2 * pts.len() + 2, t]);
        }
    }
    let frs: Vec<Fr> = sc.iter().map(|(_, k)| fr(k)).collect();
    let describe = |v: &Vec<usize>| -> Value { json!({"terms": v.iter().map(|&i| json!({"k": sc[i / pts.len()].0, "P": gm.pool[pts[i % pts.len()]].name})).collect::<Vec<_>>()}) };
    run_cases(
        ctx, "E3/C05-msm", false,
        vecs.par_iter(),
        |v| {
            let ks: Vec<Fr> = v.iter().map(|&i| frs[i / pts.len()]).collect();
            let es: Vec<Element> = v.iter().map(|&i| gm.pool[pts[i % pts.len()]].e).collect();
            let afs: Vec<Affine> = v.iter().map(|&i| gm.pool[pts[i % pts.len()]].a).collect();
            let mut m: V2 = gm.gm.zero();
            for &i in v.iter() {
                m = gm.gm.add(&m, &gm.gm.smul(&sc[i / pts.len()].1, &gm.pool[pts[i % pts.len()]].m));
            }
            let class = format!("msm/len{}", v.len());
            let outs: Vec<(&'static str, Element)> = vec![
                ("vartime_multiscalar_mul(&[Fr], &[Element])", Element::vartime_multiscalar_mul(ks.iter(), es.iter())),
                ("vartime_multiscalar_mul(owned)", Element::vartime_multiscalar_mul(ks.clone(), es.clone())),
                ("VariableBaseMSM::msm", <Element as VariableBaseMSM>::msm(&afs, &ks).expect("equal lengths")),
                ("VariableBaseMSM::msm_unchecked", <Element as VariableBaseMSM>::msm_unchecked(&afs, &ks)),
            ];
            for (name, e) in outs {
                if !gm.conforms(Kind::E, &el_coords(&e), &m) {
                    let p = gm.pt(&m);
                    return Outcome::bad(class, Viol { key: format!("C05|msm|{name}"), engine: "E3/C05-msm".into(), case: describe(v), expected: format!("sum of the individual products = class of ({}, {})", p.x, p.y), got: format!("{name}: {:?}", hex_coords(&el_coords(&e))) });
                }
            }
            if v.len() >= 2 && <Element as VariableBaseMSM>::msm(&afs[..v.len() - 1], &ks).is_ok() {
                return Outcome::bad(class, Viol { key: "C05|msm|length-mismatch".into(), engine: "E3/C05-msm".into(), case: describe(v), expected: "Err on length mismatch".into(), got: "Ok".into() });
            }
            Outcome::ok(class)
        },
        |v| ("msm".into(), describe(v)),
    );
    // LONG vectors: the bucket method picks its window width from the number of terms, so lengths
    // are a control parameter of their own: powers of two and their neighbours. Bases (i+1)*G
    // accumulated by addition (Z != 1), scalars cycling through a list that contains members with
    // the top bit of r set; expected sum computed in the abstract model.
    {
        let lens: Vec<usize> = if ctx.quick() { vec![4, 15, 16, 17, 31, 32, 33, 63, 64, 65, 127, 128, 129, 255, 256, 257] } else { vec![4, 15, 16, 17, 31, 32, 33, 63, 64, 65, 127, 128, 129, 255, 256, 257, 511, 512, 513, 1023, 1024, 1025, 2047, 2048, 2049, 4095, 4096, 4097] };
        run_cases(
            ctx, "E3/C05-msm-long", false,
            (0..lens.len() * 3).into_par_iter().map(|i| (lens[i / 3], i % 3)),
            |&(l, rot)| eval_long_msm(gm, l, rot),
            |&(l, rot)| ("msm-long".into(), json!({"long_msm": {"len": l, "rotation": rot}})),
        );
        ctx.report.rule(format!("E3/C05-msm-long[ark]: vectors of {} lengths (powers of two and neighbours up to {}) x 3 scalar rotations, bases (i+1)G with Z != 1, through msm / msm_unchecked / vartime_multiscalar_mul", lens.len(), lens.iter().max().unwrap()));
    }
    ctx.report.rule(format!("E3/C05-msm[ark]: {} vectors (all of length 0..=2{} over 6 scalars x 6 points) through vartime_multiscalar_mul (borrowed/owned), VariableBaseMSM::msm, msm_unchecked", vecs.len(), if ctx.quick() { ", one fifth of length 3" } else { ", all of length 3" }));
}

#[cfg(feature = "ark")]
pub fn eval_long_msm(gm: &GM, l: usize, rot: usize) -> Outcome {
    use ark_ec::{CurveGroup, VariableBaseMSM};
    let r = &gm.gm.dc.r;
    let g = Element::GENERATOR;
    let mut bases: Vec<Element> = Vec::with_capacity(l);
    let mut acc = g;
    for _ in 0..l {
        bases.push(acc);
        acc += g;
    }
    let afs: Vec<Affine> = Element::normalize_batch(&bases);
    let cyc: Vec<BigUint> = vec![r - 1u32, BigUint::one() << 250, (BigUint::one() << 250) + 12345u32, BigUint::one(), BigUint::from(2u32), BigUint::from_bytes_le(&[0x55u8; 31]), (BigUint::one() << 249) + (BigUint::one() << 125), BigUint::from(0xDEAD_BEEFu64), r - 2u32, BigUint::zero(), (r - 1u32) >> 1];
    let ks_big: Vec<BigUint> = (0..l).map(|i| cyc[(i + rot * 4) % cyc.len()].clone()).collect();
    let ks: Vec<Fr> = ks_big.iter().map(fr).collect();
    let mut c = BigUint::zero();
    for (i, k) in ks_big.iter().enumerate() {
        c = (c + k * BigUint::from(i as u64 + 1)) % r;
    }
    let m = gm.gm.smul(&c, &gm.gm.vi(1, 0));
    let class = format!("msm-long/len{l}");
    let outs: Vec<(&'static str, Element)> = vec![
        ("VariableBaseMSM::msm", <Element as VariableBaseMSM>::msm(&afs, &ks).expect("equal lengths")),
        ("VariableBaseMSM::msm_unchecked", <Element as VariableBaseMSM>::msm_unchecked(&afs, &ks)),
        ("vartime_multiscalar_mul(&[Fr], &[Element])", Element::vartime_multiscalar_mul(ks.iter(), bases.iter())),
    ];
    for (name, e) in outs {
        if !gm.conforms(Kind::E, &el_coords(&e), &m) {
            let p = gm.pt(&m);
            return Outcome::bad(class, Viol { key: format!("C05|msm-long|{name}"), engine: "E3/C05-msm-long".into(), case: json!({"long_msm": {"len": l, "rotation": rot}}), expected: format!("sum of k_i * (i+1)G = class of ({}, {})", p.x, p.y), got: format!("{name}: {:?}", hex_coords(&el_coords(&e))) });
        }
    }
    Outcome::ok(class)
}

pub fn replay(case: &Value) -> (bool, Value) {
    #[cfg(feature = "ark")]
    if case["long_msm"].is_object() {
        let gm = build_model(Sel::C05, 1);
        let o = eval_long_msm(&gm, case["long_msm"]["len"].as_u64().unwrap_or(4) as usize, case["long_msm"]["rotation"].as_u64().unwrap_or(0) as usize);
        return match o.viol {
            Some(v) => (false, json!({"what": v.key, "expected": v.expected, "got": v.got})),
            None => (true, json!({"class": o.class})),
        };
    }
    // grid cases: rebuild the scalar from its limbs and re-run the single step
    if case["form"].is_string() {
        let limbs: Vec<u64> = case["k_limbs"].as_array().map(|a| a.iter().filter_map(|x| x.as_str()?.parse().ok()).collect()).unwrap_or_default();
        let k = refmodel::fld::from_limbs(&limbs);
        let gm = build_model_ex(Sel::C05, 1, Some(vec![("k".into(), k, limbs.len())]));
        let seed = case["seed"].as_str().unwrap_or("");
        let sd = match gm.seeds.iter().find(|s| s.name == seed) {
            Some(s) => s,
            None => return (false, json!({"error": "unknown seed"})),
        };
        let fi = match gm.forms.iter().position(|f| Some(f.name) == case["form"].as_str()) {
            Some(i) => i,
            None => return (false, json!({"error": "unknown form"})),
        };
        let s0 = St { depth: 0, kind: sd.val.kind(), c: sd.val.coords(), m: sd.m, bad: 0 };
        let st = gm.step(&s0, Act { form: fi as u16, a: 0, b: NONE });
        let p = gm.pt(&st.m);
        return (st.bad == 0, json!({"got": hex_coords(&st.c), "expected_class_point": [p.x.to_string(), p.y.to_string()], "conforms": st.bad == 0}));
    }
    (true, json!({"note": "msm cases are replayed by re-running ./check C05 quick (the case names its terms)"}))
}
