//! C06 (E3 part, arkworks build) -- every public constructor yields a valid group element:
//! `AffineRepr::from_random_bytes` on structured byte strings, and the samplers
//! (`Distribution<Element|AffinePoint> for Standard`, `UniformRand`) under a SCRIPTED RNG whose
//! answers are enumerated exhaustively up to a bound (the RNG is the environment).
use crate::core::*;
use crate::sut::*;
use ark_ec::AffineRepr;
use ark_std::rand::{distributions::Standard, prelude::Distribution, Error, RngCore};
use ark_std::UniformRand;
use num_bigint::BigUint;
use num_traits::{One, Zero};
use rayon::prelude::*;
use refmodel::curve::Pt;
use refmodel::fld::{to32, u};
use refmodel::spec::Decaf;
use serde_json::{json, Value};
use std::sync::Arc;

/// validity in reference arithmetic + through the real API
pub fn valid_affine(dc: &Decaf, x: &BigUint, y: &BigUint) -> Result<(), String> {
    let p = Pt { x: x.clone(), y: y.clone() };
    if !dc.c.on_curve(&p) {
        return Err("not on the curve".into());
    }
    if !dc.c.mul(&p, &dc.r).x.is_zero() {
        return Err("on the curve but outside the group 2E (r*P is not in {(0,1),(0,-1)})".into());
    }
    // real API: encoding decodes to an element equal to it, r*P is the identity
    let e = el_from_pt(&p, dc.f());
    match e.vartime_compress().vartime_decompress() {
        Ok(d) if d == e => {}
        _ => return Err("its encoding does not decode to an element equal to it".into()),
    }
    let rl = limbs_n(&dc.r, 4);
    if !ark_ec::Group::mul_bigint(&e, &rl).is_identity() {
        return Err("r*P is not the identity (real API)".into());
    }
    Ok(())
}

pub fn eval_frb(dc: &Decaf, bytes: &[u8]) -> Outcome {
    let class;
    match <Affine as AffineRepr>::from_random_bytes(bytes) {
        None => {
            class = "from_random_bytes/None".to_string();
            Outcome::trivial(class)
        }
        Some(a) => {
            let c = af_coords(&a);
            let (x, y) = (BigUint::from_bytes_le(&c[0]), BigUint::from_bytes_le(&c[1]));
            class = format!("from_random_bytes/Some/len{}", if bytes.len() == 32 { "=32" } else if bytes.len() < 32 { "<32" } else { ">32" });
            match valid_affine(dc, &x, &y) {
                Ok(()) => Outcome::ok(class),
                Err(why) => Outcome::bad(class, Viol { key: "C06|from_random_bytes|invalid element".into(), engine: "E3/C06-frb".into(), case: json!({"bytes": hex::encode(bytes)}), expected: "None, or a valid decaf377 element (on curve, in 2E, encoding round-trips)".into(), got: format!("Some(({x}, {y})): {why}") }),
            }
        }
    }
}

/// RNG whose first answers are scripted; afterwards a fixed counter stream (explicit horizon so
/// that rejection loops terminate)
pub struct Scripted {
    pub script: Vec<u64>,
    pub pos: usize,
    pub ctr: u64,
    pub draws: usize,
    /// continuation after the script: false = splitmix64 of a counter, true = the plain counter
    /// itself (an adversarially monotone stream; `ctr` is its start value)
    pub plain_counter: bool,
}
impl RngCore for Scripted {
    fn next_u32(&mut self) -> u32 {
        self.next_u64() as u32
    }
    fn next_u64(&mut self) -> u64 {
        self.draws += 1;
        if self.draws > DRAW_HORIZON {
            // explicit horizon, counted in draws (never in wall time): unwinds out of the sampler
            std::panic::panic_any(HorizonReached);
        }
        if self.pos < self.script.len() {
            let v = self.script[self.pos];
            self.pos += 1;
            v
        } else if self.plain_counter {
            let v = self.ctr;
            self.ctr = self.ctr.wrapping_add(1);
            v
        } else {
            // splitmix64 on a counter: deterministic, well spread
            self.ctr = self.ctr.wrapping_add(0x9e3779b97f4a7c15);
            let mut z = self.ctr;
            z = (z ^ (z >> 30)).wrapping_mul(0xbf58476d1ce4e5b9);
            z = (z ^ (z >> 27)).wrapping_mul(0x94d049bb133111eb);
            z ^ (z >> 31)
        }
    }
    fn fill_bytes(&mut self, dest: &mut [u8]) {
        for ch in dest.chunks_mut(8) {
            let v = self.next_u64().to_le_bytes();
            ch.copy_from_slice(&v[..ch.len()]);
        }
    }
    fn try_fill_bytes(&mut self, dest: &mut [u8]) -> Result<(), Error> {
        self.fill_bytes(dest);
        Ok(())
    }
}

/// explicit horizon of every RNG environment, in draws
pub const DRAW_HORIZON: usize = 1 << 20;
pub struct HorizonReached;

/// a script [COUNTER_TAG, start] selects the plain-counter environment starting at `start`
pub const COUNTER_TAG: u64 = 0xC0_47E2_C0_47E2_C0_47;
pub const SAMPLERS: [&str; 4] = ["Standard.sample::<Element>", "Element::rand (UniformRand)", "Standard.sample::<AffinePoint>", "AffinePoint::rand (UniformRand)"];

pub fn eval_sampler(dc: &Decaf, which: usize, script: &[u64]) -> Outcome {
    let counter_env = script.len() == 2 && script[0] == COUNTER_TAG;
    match std::panic::catch_unwind(std::panic::AssertUnwindSafe(|| eval_sampler_inner(dc, which, script))) {
        Ok(o) => o,
        Err(payload) => {
            if payload.downcast_ref::<HorizonReached>().is_some() {
                if counter_env {
                    // a monotone counter can keep a fixed bit pattern for 2^32 draws; slow or no
                    // termination under such a degenerate generator is outside C06 (which
                    // constrains the values RETURNED)
                    Outcome::trivial(format!("{}/horizon reached under a counter generator (no value returned)", SAMPLERS[which]))
                } else {
                    Outcome::bad("sampler/horizon", Viol { key: format!("C06|sampler|{}|horizon", SAMPLERS[which]), engine: "E3/C06-rng".into(), case: json!({"sampler": SAMPLERS[which], "script": script.iter().map(|x| x.to_string()).collect::<Vec<_>>()}), expected: format!("returns a value within {DRAW_HORIZON} draws of a well-spread (splitmix64) continuation"), got: "still drawing: unbounded rejection loop".into() })
                }
            } else {
                std::panic::resume_unwind(payload)
            }
        }
    }
}

fn eval_sampler_inner(dc: &Decaf, which: usize, script: &[u64]) -> Outcome {
    let mut rng = if script.len() == 2 && script[0] == COUNTER_TAG { Scripted { script: vec![], pos: 0, ctr: script[1], draws: 0, plain_counter: true } } else { Scripted { script: script.to_vec(), pos: 0, ctr: 0x1234, draws: 0, plain_counter: false } };
    let (x, y): (BigUint, BigUint) = match which {
        0 | 1 => {
            let e: Element = if which == 0 { Standard.sample(&mut rng) } else { Element::rand(&mut rng) };
            let cb = coords_big(&el_coords(&e));
            let f = dc.f();
            if cb[2].is_zero() {
                return Outcome::bad("sampler", Viol { key: format!("C06|sampler|{}", SAMPLERS[which]), engine: "E3/C06-rng".into(), case: json!({"sampler": SAMPLERS[which], "script": script.iter().map(|x| x.to_string()).collect::<Vec<_>>()}), expected: "valid element".into(), got: "Z = 0".into() });
            }
            let zi = f.inv(&cb[2]).unwrap();
            if f.mul(&cb[3], &cb[2]) != f.mul(&cb[0], &cb[1]) {
                return Outcome::bad("sampler", Viol { key: format!("C06|sampler|{}", SAMPLERS[which]), engine: "E3/C06-rng".into(), case: json!({"sampler": SAMPLERS[which], "script": script.iter().map(|x| x.to_string()).collect::<Vec<_>>()}), expected: "T*Z == X*Y".into(), got: "broken extended coordinates".into() });
            }
            (f.mul(&cb[0], &zi), f.mul(&cb[1], &zi))
        }
        _ => {
            let a: Affine = if which == 2 { Standard.sample(&mut rng) } else { Affine::rand(&mut rng) };
            let c = af_coords(&a);
            (BigUint::from_bytes_le(&c[0]), BigUint::from_bytes_le(&c[1]))
        }
    };
    let class = format!("{}/draws{}", SAMPLERS[which], if rng.draws <= 5 { "<=5".to_string() } else if rng.draws <= 10 { "6-10".to_string() } else { ">10".to_string() });
    match valid_affine(dc, &x, &y) {
        Ok(()) => Outcome::ok(class),
        Err(why) => Outcome::bad(class, Viol { key: format!("C06|sampler|{}", SAMPLERS[which]), engine: "E3/C06-rng".into(), case: json!({"sampler": SAMPLERS[which], "script": script.iter().map(|x| x.to_string()).collect::<Vec<_>>()}), expected: "a valid decaf377 element".into(), got: format!("({x}, {y}): {why}") }),
    }
}

/// Deserialisation modes the crate declares `unimplemented!()` (Compress::No, Validate::No): a
/// panic or an error hands out nothing and is fine; but IF a mode returns a value, that value
/// must be a valid group element like any other constructor's output.
pub const ALT_MODES: [&str; 6] = [
    "Element::deserialize_compressed_unchecked", "Element::deserialize_uncompressed", "Element::deserialize_uncompressed_unchecked",
    "AffinePoint::deserialize_compressed_unchecked", "AffinePoint::deserialize_uncompressed", "AffinePoint::deserialize_uncompressed_unchecked",
];
pub fn eval_alt_mode(dc: &Decaf, which: usize, bytes: &[u8]) -> Outcome {
    use ark_serialize::CanonicalDeserialize;
    let f = dc.f();
    let res: Result<Option<(BigUint, BigUint)>, String> = guarded(|| {
        let el = |e: Element| -> Option<(BigUint, BigUint)> {
            let cb = coords_big(&el_coords(&e));
            let zi = f.inv(&cb[2])?;
            Some((f.mul(&cb[0], &zi), f.mul(&cb[1], &zi)))
        };
        let af = |a: Affine| -> Option<(BigUint, BigUint)> {
            let c = af_coords(&a);
            Some((BigUint::from_bytes_le(&c[0]), BigUint::from_bytes_le(&c[1])))
        };
        match which {
            0 => Element::deserialize_compressed_unchecked(bytes).ok().map(|e| el(e).unwrap_or((u(0), u(0)))),
            1 => Element::deserialize_uncompressed(bytes).ok().map(|e| el(e).unwrap_or((u(0), u(0)))),
            2 => Element::deserialize_uncompressed_unchecked(bytes).ok().map(|e| el(e).unwrap_or((u(0), u(0)))),
            3 => Affine::deserialize_compressed_unchecked(bytes).ok().and_then(af),
            4 => Affine::deserialize_uncompressed(bytes).ok().and_then(af),
            _ => Affine::deserialize_uncompressed_unchecked(bytes).ok().and_then(af),
        }
    });
    match res {
        Err(_) => Outcome::trivial(format!("{}/panics (declared unimplemented)", ALT_MODES[which])),
        Ok(None) => Outcome::trivial(format!("{}/Err", ALT_MODES[which])),
        Ok(Some((x, y))) => {
            let class = format!("{}/returns-a-value", ALT_MODES[which]);
            match valid_affine(dc, &x, &y) {
                Ok(()) => Outcome::ok(class),
                Err(why) => Outcome::bad(class, Viol { key: format!("C06|{}|invalid element", ALT_MODES[which]), engine: "E3/C06-altmode".into(), case: json!({"mode": ALT_MODES[which], "bytes": hex::encode(bytes)}), expected: "panic / Err, or a valid decaf377 element".into(), got: format!("({x}, {y}): {why}") }),
            }
        }
    }
}

pub fn run(ctx: &Arc<Ctx>) {
    let dc = Decaf::new();
    let q = dc.f().p.clone();
    // ---- alternative deserialisation modes on crafted inputs
    {
        let f = dc.f();
        let g = dc.generator();
        let i = f.sqrt(&f.neg(&u(1))).unwrap();
        let o4 = Pt { x: i.clone(), y: u(0) };
        let outside = dc.c.add(&g, &o4);
        let pts: Vec<Pt> = vec![g.clone(), dc.c.identity(), dc.c.torsion2(), o4.clone(), outside.clone(), dc.c.add(&outside, &g), Pt { x: u(1), y: u(1) }, Pt { x: u(0), y: u(0) }, dc.c.other_rep(&g)];
        let mut inputs: Vec<Vec<u8>> = vec![];
        for p in &pts {
            // x||y, y||x, and y with the sign-of-x flag (the arkworks compressed Edwards form)
            inputs.push([to32(&p.x), to32(&p.y)].concat());
            inputs.push([to32(&p.y), to32(&p.x)].concat());
            let mut yb = to32(&p.y);
            inputs.push(yb.to_vec());
            yb[31] |= 0x80;
            inputs.push(yb.to_vec());
            if let Ok(e) = dc.encode_spec_bytes(p) {
                inputs.push(e.to_vec());
                inputs.push([e, [0u8; 32]].concat());
            }
        }
        for len in [0usize, 31, 32, 33, 63, 64, 65, 96] {
            inputs.push(vec![0u8; len]);
            inputs.push(vec![0xffu8; len]);
        }
        inputs.push(to32(&(&q - 1u32)).to_vec());
        inputs.sort();
        inputs.dedup();
        let n = inputs.len();
        run_cases(ctx, "E3/C06-altmode", false, (0..n * 6).into_par_iter().map(|i| (i % 6, i / 6)), |&(w, i)| eval_alt_mode(&dc, w, &inputs[i]), |&(w, i)| (format!("altmode|{}", ALT_MODES[w]), json!({"mode": ALT_MODES[w], "bytes": hex::encode(&inputs[i])})));
    }
    // ---- long batches
    {
        let lens: Vec<usize> = if ctx.quick() { vec![0, 1, 2, 3, 4, 7, 8, 9, 255, 256, 257, 1023, 1024, 1025, 4095, 4096, 4097] } else { vec![0, 1, 2, 3, 4, 7, 8, 9, 15, 16, 17, 255, 256, 257, 1023, 1024, 1025, 4095, 4096, 4097, 8191, 8192, 8193, 16385, 65537] };
        run_cases(ctx, "E3/C06-batch", false, (0..lens.len() * 2).into_par_iter().map(|i| (i % 2, lens[i / 2])), |&(api, l)| eval_long_batch(&dc, api, l), |&(api, l)| (format!("batch|{}", BATCH_APIS[api]), json!({"long_batch": {"api": BATCH_APIS[api], "len": l}})));
        ctx.report.rule(format!("E3/C06-batch[ark]: normalize_batch and batch_convert_to_mul_base on batches of {} lengths (0..4, powers of two and neighbours up to {}), bases (i+1)G with mixed Z; every output compared with the reference multiple", lens.len(), lens.iter().max().unwrap()));
    }
    // ---- from_random_bytes
    let mut strings: Vec<Vec<u8>> = vec![];
    for len in 0..=64usize {
        strings.push(vec![0u8; len]);
        strings.push(vec![0xffu8; len]);
        strings.push((0..len).map(|i| (i * 37 + 11) as u8).collect());
        let mut b = vec![0u8; len];
        if len > 0 {
            b[0] = 8;
        }
        strings.push(b);
    }
    let top = ctx.t(1u64 << 11, 1u64 << 16);
    for i in 0..top {
        let b = to32(&u(i));
        strings.push(b.to_vec());
        let mut b2 = b;
        b2[31] |= 0x80;
        strings.push(b2.to_vec());
    }
    for d in 0..ctx.t(64u32, 1024) {
        strings.push(to32(&(&q - d)).to_vec());
        strings.push(to32(&(&q + d)).to_vec());
    }
    // valid decaf encodings and their neighbours
    let g = dc.generator();
    let mut acc = dc.c.identity();
    for _ in 0..ctx.t(16, 128) {
        let e = dc.encode_spec_bytes(&acc).unwrap();
        strings.push(e.to_vec());
        let mut e2 = e;
        e2[0] ^= 1;
        strings.push(e2.to_vec());
        acc = dc.c.add(&acc, &g);
    }
    strings.sort();
    strings.dedup();
    run_cases(ctx, "E3/C06-frb", false, strings.par_iter(), |b| eval_frb(&dc, b), |b| ("from_random_bytes".into(), json!({"bytes": hex::encode(b)})));
    // ---- samplers under every scripted RNG answer sequence up to the bound
    let ql = refmodel::fld::limbs4(&q);
    let genc = refmodel::fld::limbs4(&BigUint::from_bytes_le(&dc.encode_spec_bytes(&dc.c.add(&g, &g)).unwrap()));
    let alphabet: Vec<u64> = vec![0, 1, 1 << 63, u64::MAX, ql[0], ql[3], genc[0], 8];
    let maxlen = ctx.t(4usize, 6);
    let mut scripts: Vec<Vec<u64>> = vec![vec![]];
    let mut layer: Vec<Vec<u64>> = vec![vec![]];
    for _ in 0..maxlen {
        let mut next = vec![];
        for s in &layer {
            for &a in &alphabet {
                let mut t = s.clone();
                t.push(a);
                next.push(t);
            }
        }
        scripts.extend(next.iter().cloned());
        layer = next;
    }
    // plain-counter environments: monotone streams started just below word / half-word boundaries
    // (long runs in which a fixed bit of every draw is set, then a carry)
    // (only boundaries that are multiples of 2^32: the adverse run ends after `back` draws, so the
    // unchanged rejection sampler terminates under every one of these environments)
    for base in [0u64, 1u64 << 32, 1u64 << 63, 0x0123_4567_0000_0000u64 + (1u64 << 32), 0xFFFF_FFFF_0000_0000u64] {
        for back in [0u64, 1, 0x100, 0xF00, 0x1000, 0x4000] {
            scripts.push(vec![COUNTER_TAG, base.wrapping_sub(back)]);
        }
    }
    let ns = scripts.len();
    run_cases(
        ctx, "E3/C06-rng", true,
        (0..ns * 4).into_par_iter().map(|i| (i % 4, i / 4)).filter(|&(w, si)| w == 0 || scripts[si].len() <= 4),
        |&(w, si)| eval_sampler(&dc, w, &scripts[si]),
        |&(w, si)| (format!("sampler|{}", SAMPLERS[w]), json!({"sampler": SAMPLERS[w], "script": scripts[si].iter().map(|x| x.to_string()).collect::<Vec<_>>()})),
    );
    ctx.report.set("C06_e3", json!({"from_random_bytes_strings": strings.len(), "rng_scripts": ns, "rng_alphabet": alphabet.iter().map(|x| x.to_string()).collect::<Vec<_>>(), "max_script_len": maxlen}));
    ctx.report.rule(format!("E3/C06[ark]: from_random_bytes on {} strings (every length 0..=64 x 4 fills, all LE integers below 2^{} with the flag bit clear and set, q +- d, valid decaf encodings and neighbours); 4 samplers under all {} scripted RNG prefixes of length <= {} over an 8-value limb alphabet followed by a fixed counter stream; validity = on curve and r*P in the identity coset in reference arithmetic, plus encoding round trip and r*P == identity through the real API", strings.len(), if ctx.quick() { 11 } else { 16 }, ns, maxlen));
    ctx.report.assume("C06: sampler scripts longer than the bound continue with a fixed splitmix64 counter stream (explicit horizon); every environment has an explicit horizon of 2^20 draws: reaching it under the well-spread continuation is a violation (unbounded rejection loop), under a monotone counter generator it is recorded as a class (no value returned, nothing to check)");
}

/// LONG batches through the batch conversions: batch length is a control parameter of its own
/// (shared batch inversions, chunking), so powers of two and their neighbours are walked. Bases
/// (i+1)G accumulated by addition (Z != 1), every third one normalised first (Z = 1); every output
/// must be the reference point (i+1)G up to the coset.
pub const BATCH_APIS: [&str; 2] = ["Element::normalize_batch", "Element::batch_convert_to_mul_base"];
pub fn eval_long_batch(dc: &Decaf, api: usize, l: usize) -> Outcome {
    use ark_ec::{CurveGroup, ScalarMul};
    let g = Element::GENERATOR;
    let mut bases: Vec<Element> = Vec::with_capacity(l);
    let mut acc = g;
    for i in 0..l {
        bases.push(if i % 3 == 2 { Element::from(acc.into_affine()) } else { acc });
        acc += g;
    }
    let outs: Vec<Affine> = if api == 0 { Element::normalize_batch(&bases) } else { Element::batch_convert_to_mul_base(&bases) };
    let class = format!("{}/len{l}", BATCH_APIS[api]);
    let case = json!({"long_batch": {"api": BATCH_APIS[api], "len": l}});
    if outs.len() != l {
        return Outcome::bad(class, Viol { key: format!("C06|{}|length", BATCH_APIS[api]), engine: "E3/C06-batch".into(), case, expected: format!("{l} outputs"), got: format!("{} outputs", outs.len()) });
    }
    let gp = dc.generator();
    let mut rp = gp.clone();
    for (i, a) in outs.iter().enumerate() {
        let c = af_coords(a);
        let p = Pt { x: BigUint::from_bytes_le(&c[0]), y: BigUint::from_bytes_le(&c[1]) };
        if !dc.c.on_curve(&p) || !dc.c.same_class(&p, &rp) {
            return Outcome::bad(class, Viol { key: format!("C06|{}|invalid output", BATCH_APIS[api]), engine: "E3/C06-batch".into(), case, expected: format!("output {i} = ({}+1)*G, a valid element", i), got: format!("({}, {}){}", p.x, p.y, if dc.c.on_curve(&p) { "" } else { ": not on the curve" }) });
        }
        rp = dc.c.add(&rp, &gp);
    }
    Outcome::ok(class)
}

pub fn replay(case: &Value) -> (bool, Value) {
    let dc = Decaf::new();
    let o = if case["long_batch"].is_object() {
        let api = BATCH_APIS.iter().position(|m| Some(*m) == case["long_batch"]["api"].as_str()).unwrap_or(0);
        eval_long_batch(&dc, api, case["long_batch"]["len"].as_u64().unwrap_or(4) as usize)
    } else if case["mode"].is_string() {
        let w = ALT_MODES.iter().position(|m| Some(*m) == case["mode"].as_str()).unwrap_or(0);
        eval_alt_mode(&dc, w, &hex::decode(case["bytes"].as_str().unwrap_or("")).unwrap_or_default())
    } else if case["bytes"].is_string() {
        eval_frb(&dc, &hex::decode(case["bytes"].as_str().unwrap()).unwrap_or_default())
    } else {
        let script: Vec<u64> = case["script"].as_array().map(|a| a.iter().filter_map(|x| x.as_str()?.parse().ok()).collect()).unwrap_or_default();
        let w = SAMPLERS.iter().position(|s| Some(*s) == case["sampler"].as_str()).unwrap_or(0);
        eval_sampler(&dc, w, &script)
    };
    match o.viol {
        Some(v) => (false, json!({"class": o.class, "expected": v.expected, "got": v.got})),
        None => (true, json!({"class": o.class, "result": "valid element (or None)"})),
    }
}
