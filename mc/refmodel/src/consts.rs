//! placeholder, filled in with the C17 reference (constants recomputed from the moduli)
