//! Shared infrastructure for the R1CS checks (C13, C14, C15); arkworks build only.
use crate::explorer::{build_model, Sel, Val};
use crate::sut::*;
use ark_relations::r1cs::{ConstraintSystem, ConstraintSystemRef, OptimizationGoal, SynthesisError, SynthesisMode};
use num_bigint::BigUint;
use refmodel::fld::u;
use refmodel::spec::Decaf;
use sha2::{Digest, Sha256};

pub use ark_r1cs_std::prelude::*;
pub use ark_r1cs_std::R1CSVar;
pub use decaf377::r1cs::fqvar_ext::FqVarExtension;
pub use decaf377::r1cs::{ElementVar, FqVar};

#[derive(Clone, Debug, PartialEq, Eq)]
pub enum Synth {
    Sat,
    Unsat,
    /// synthesis itself failed (e.g. Unsatisfiable raised on constants, AssignmentMissing)
    Err(String),
}
impl Synth {
    pub fn is_sat(&self) -> bool {
        *self == Synth::Sat
    }
}

pub fn new_cs(mode: SynthesisMode) -> ConstraintSystemRef<Fq> {
    let cs = ConstraintSystem::<Fq>::new_ref();
    cs.set_optimization_goal(OptimizationGoal::Constraints);
    cs.set_mode(mode);
    cs
}
pub fn prove_mode() -> SynthesisMode {
    SynthesisMode::Prove { construct_matrices: true }
}

pub fn sat_of<T>(cs: &ConstraintSystemRef<Fq>, r: &Result<T, SynthesisError>) -> Synth {
    match r {
        Err(e) => Synth::Err(format!("{e:?}")),
        Ok(_) => match cs.is_satisfied() {
            Ok(true) => Synth::Sat,
            Ok(false) => Synth::Unsat,
            Err(e) => Synth::Err(format!("is_satisfied: {e:?}")),
        },
    }
}

/// digest of the shape of a constraint system: counts + A, B, C matrices after finalisation
pub fn shape_digest(cs: &ConstraintSystemRef<Fq>) -> (usize, usize, usize, String, Vec<u64>) {
    cs.finalize();
    let m = cs.to_matrices().expect("matrices are constructed in Setup and Prove{construct_matrices}");
    let mut h = Sha256::new();
    h.update((m.num_instance_variables as u64).to_le_bytes());
    h.update((m.num_witness_variables as u64).to_le_bytes());
    h.update((m.num_constraints as u64).to_le_bytes());
    let mut rows: Vec<u64> = Vec::with_capacity(m.num_constraints);
    for i in 0..m.num_constraints {
        let mut rh = Sha256::new();
        for mat in [&m.a, &m.b, &m.c] {
            rh.update([0xAB]);
            for (coeff, idx) in &mat[i] {
                rh.update(coeff.to_bytes_le());
                rh.update((*idx as u64).to_le_bytes());
            }
        }
        let d = rh.finalize();
        h.update(&d);
        rows.push(u64::from_le_bytes(d[..8].try_into().unwrap()));
    }
    (m.num_instance_variables, m.num_witness_variables, m.num_constraints, hex::encode(&h.finalize()[..16]), rows)
}

/// structured element representatives: explorer seeds + pool operands (exact internal
/// representatives incl. both coset members, Z != 1, both identity representatives)
pub fn element_inputs() -> Vec<(String, Element)> {
    let gm = build_model(Sel::C04, 0);
    let f = gm.gm.dc.c.f.clone();
    let mut v: Vec<(String, Element)> = vec![];
    let mut seen: Vec<Coords> = vec![];
    for sd in &gm.seeds {
        let e = sd.val.as_element_ref(&f);
        let c = el_coords(&e);
        if !seen.contains(&c) {
            seen.push(c);
            v.push((sd.name.clone(), e));
        }
    }
    for o in &gm.pool {
        let c = el_coords(&o.e);
        if !seen.contains(&c) {
            seen.push(c);
            v.push((format!("pool:{}", o.name), o.e));
        }
    }
    let _ = Val::E(Element::IDENTITY);
    v
}

/// field elements offered to the decoder: valid encodings and structured invalid ones
pub fn encoding_inputs(dc: &Decaf) -> Vec<(String, BigUint, bool)> {
    let f = dc.f();
    let q = &f.p;
    let mut v: Vec<(String, BigUint)> = vec![];
    for i in 0..24u64 {
        v.push((format!("{i}"), u(i)));
    }
    v.push(("q-1".into(), q - 1u32));
    v.push(("q-2".into(), q - 2u32));
    v.push(("(q-1)/2".into(), (q - 1u32) >> 1));
    v.push(("(q+1)/2".into(), (q + 1u32) >> 1));
    let g = dc.generator();
    let mut acc = g.clone();
    for k in 1..10 {
        let s = dc.encode_spec(&acc).unwrap();
        v.push((format!("enc({k}G)"), s.clone()));
        v.push((format!("-enc({k}G)"), f.neg(&s)));
        v.push((format!("enc({k}G)+2"), f.add(&s, &u(2))));
        acc = dc.c.add(&acc, &g);
    }
    let h = dc.elligator_spec(&u(1));
    v.push(("enc(H)".into(), dc.encode_spec(&h).unwrap()));
    v.push(("enc(H-G)".into(), dc.encode_spec(&dc.c.sub(&h, &g)).unwrap()));
    v.push(("zeta".into(), dc.zeta.clone()));
    v.push(("2^252".into(), BigUint::from(1u8) << 252));
    let mut out = vec![];
    let mut seen = vec![];
    for (n, s) in v {
        if seen.contains(&s) {
            continue;
        }
        seen.push(s.clone());
        let valid = !f.is_neg(&s) && dc.decode_spec_fe(&s).is_ok();
        out.push((n, s, valid));
    }
    out
}

pub fn mode_name(m: AllocationMode) -> &'static str {
    match m {
        AllocationMode::Constant => "constant",
        AllocationMode::Input => "input",
        AllocationMode::Witness => "witness",
    }
}
pub const MODES: [AllocationMode; 3] = [AllocationMode::Constant, AllocationMode::Input, AllocationMode::Witness];
