//! Field layer shared by C10 (arithmetic), C11 (encodings / conversions) and C17 (constants):
//! a uniform trait over the three fields of the build under test, operand domains, and the
//! operator/method forms.
use num_bigint::BigUint;
use num_traits::{One, Zero};
use refmodel::fld::{big, to_le_n, Fld};
use refmodel::spec::{P_HEX, Q_DEC, R_DEC};
use std::fmt::Debug;
use std::hash::Hash;
use std::iter::{Product, Sum};
use std::ops::*;

pub trait FS:
    Copy
    + PartialEq
    + Eq
    + Ord
    + Hash
    + Default
    + Debug
    + Send
    + Sync
    + 'static
    + Add<Output = Self>
    + for<'a> Add<&'a Self, Output = Self>
    + for<'a> Add<&'a mut Self, Output = Self>
    + AddAssign
    + for<'a> AddAssign<&'a Self>
    + for<'a> AddAssign<&'a mut Self>
    + Sub<Output = Self>
    + for<'a> Sub<&'a Self, Output = Self>
    + for<'a> Sub<&'a mut Self, Output = Self>
    + SubAssign
    + for<'a> SubAssign<&'a Self>
    + for<'a> SubAssign<&'a mut Self>
    + Mul<Output = Self>
    + for<'a> Mul<&'a Self, Output = Self>
    + for<'a> Mul<&'a mut Self, Output = Self>
    + MulAssign
    + for<'a> MulAssign<&'a Self>
    + for<'a> MulAssign<&'a mut Self>
    + Div<Output = Self>
    + for<'a> Div<&'a Self, Output = Self>
    + for<'a> Div<&'a mut Self, Output = Self>
    + DivAssign
    + for<'a> DivAssign<&'a Self>
    + for<'a> DivAssign<&'a mut Self>
    + Neg<Output = Self>
    + Sum<Self>
    + for<'a> Sum<&'a Self>
    + Product<Self>
    + for<'a> Product<&'a Self>
    + From<u128>
    + From<u64>
    + From<u32>
    + From<u16>
    + From<u8>
    + From<bool>
{
    const NAME: &'static str;
    const NBYTES: usize;
    fn modulus() -> BigUint;
    fn zero() -> Self;
    fn one() -> Self;
    fn from_le_mod(b: &[u8]) -> Self;
    fn from_checked(b: &[u8]) -> Result<Self, String>;
    fn to_le(&self) -> Vec<u8>;
    fn to_bytes2(&self) -> Vec<u8>;
    fn i_square(&self) -> Self;
    fn i_inverse(&self) -> Option<Self>;
    fn i_add(self, o: &Self) -> Self;
    fn i_sub(self, o: &Self) -> Self;
    fn i_mul(self, o: &Self) -> Self;
    fn i_neg(self) -> Self;
    fn big(&self) -> BigUint {
        BigUint::from_bytes_le(&self.to_le())
    }
    /// read-in path used by the harness: canonical bytes through the checked parser
    fn of(b: &BigUint) -> Self {
        Self::from_checked(&to_le_n(b, Self::NBYTES)).expect("harness: canonical input")
    }
}

macro_rules! impl_fs {
    ($t:ty, $name:expr, $n:expr, $m:expr) => {
        impl FS for $t {
            const NAME: &'static str = $name;
            const NBYTES: usize = $n;
            fn modulus() -> BigUint {
                big($m)
            }
            fn zero() -> Self {
                <$t>::ZERO
            }
            fn one() -> Self {
                <$t>::ONE
            }
            fn from_le_mod(b: &[u8]) -> Self {
                <$t>::from_le_bytes_mod_order(b)
            }
            fn from_checked(b: &[u8]) -> Result<Self, String> {
                let a: [u8; $n] = b.try_into().map_err(|_| "length".to_string())?;
                <$t>::from_bytes_checked(&a).map_err(|e| format!("{e:?}"))
            }
            fn to_le(&self) -> Vec<u8> {
                self.to_bytes_le().to_vec()
            }
            fn to_bytes2(&self) -> Vec<u8> {
                self.to_bytes().to_vec()
            }
            fn i_square(&self) -> Self {
                <$t>::square(self)
            }
            fn i_inverse(&self) -> Option<Self> {
                <$t>::inverse(self)
            }
            fn i_add(self, o: &Self) -> Self {
                <$t>::add(self, o)
            }
            fn i_sub(self, o: &Self) -> Self {
                <$t>::sub(self, o)
            }
            fn i_mul(self, o: &Self) -> Self {
                <$t>::mul(self, o)
            }
            fn i_neg(self) -> Self {
                <$t>::neg(self)
            }
        }
    };
}
impl_fs!(decaf377::Fq, "Fq", 32, Q_DEC);
impl_fs!(decaf377::Fr, "Fr", 32, R_DEC);
impl_fs!(decaf377::Fp, "Fp", 48, P_HEX);

// -------------------------------------------------------------------------------------------
// operand domains

pub fn dedup(mut v: Vec<BigUint>) -> Vec<BigUint> {
    v.sort();
    v.dedup();
    v
}

/// S_small: structured values of [0,p): small ints, values around p, halves, powers of two and
/// neighbours, p - 2^k, Montgomery constants R, R^2, R^-1 for both word sizes.
pub fn s_small(p: &BigUint, nbytes: usize, dense: bool) -> Vec<BigUint> {
    let f = Fld::new(p.clone());
    let one = BigUint::one();
    let mut v: Vec<BigUint> = vec![];
    for i in 0u32..4 {
        v.push(BigUint::from(i));
        v.push(p - BigUint::from(i + 1));
    }
    v.push((p - &one) >> 1);
    v.push((p + &one) >> 1);
    v.push(((p - &one) >> 1) - &one);
    let bits = p.bits();
    // powers of two: every multiple of 8, the neighbourhood of every 32-bit limb boundary and
    // of the top bit of p (dense: every k)
    for k in 1..=(nbytes as u64 * 8) {
        let near_limb = k % 32 == 0 || k % 32 == 1 || k % 32 == 31;
        let near_top = k + 2 >= bits && k <= bits + 1;
        if !(dense || k % 8 == 0 || near_limb || near_top || k < 4) {
            continue;
        }
        let t = &one << k;
        for c in [&t - &one, t.clone(), &t + &one] {
            v.push(&c % p);
        }
        if k < bits && (dense || near_limb || near_top) {
            v.push(p - &t);
        }
    }
    for w in [32u64, 64] {
        let n = ((bits + w - 1) / w) * w;
        let r = (&one << n) % p;
        v.push(r.clone());
        v.push(f.sqr(&r));
        v.push(f.inv(&r).unwrap());
        v.push(f.neg(&r));
    }
    // unstructured members: a fixed pseudo-random family (see `prand`)
    let keep = v.clone();
    v.extend(prand(0x51, if dense { 96 } else { 40 }, p));
    let mut v = dedup(v);
    // callers index "the last element" as a Montgomery-ish structured value: keep order stable
    v.retain(|x| !keep.contains(x));
    let mut out = dedup(keep);
    out.extend(v);
    out
}

/// S_limb: each 32-bit limb independently from `pat`, reduced mod p
pub fn s_limb(p: &BigUint, nbytes: usize, pat: &[u32]) -> Vec<BigUint> {
    let nl = nbytes / 4;
    let total = (pat.len() as u64).pow(nl as u32);
    let mut v = Vec::with_capacity(total as usize);
    for mut i in 0..total {
        let mut bytes = Vec::with_capacity(nbytes);
        for _ in 0..nl {
            let l = pat[(i % pat.len() as u64) as usize];
            i /= pat.len() as u64;
            bytes.extend_from_slice(&l.to_le_bytes());
        }
        v.push(BigUint::from_bytes_le(&bytes) % p);
    }
    dedup(v)
}

// -------------------------------------------------------------------------------------------
// forms

pub struct BinForm<F: FS> {
    pub name: &'static str,
    pub op: char,
    pub f: fn(F, F) -> F,
}
pub struct UnForm<F: FS> {
    pub name: &'static str,
    /// 'n' neg, 's' square, 'i' inverse (None expected for 0 -> encoded as result 0 + flag), 'd' double
    pub op: char,
    pub f: fn(F) -> Option<F>,
}

pub fn bin_forms<F: FS>() -> Vec<BinForm<F>> {
    let mut v: Vec<BinForm<F>> = vec![];
    macro_rules! bf {
        ($n:expr, $op:expr, $f:expr) => {
            v.push(BinForm { name: $n, op: $op, f: $f });
        };
    }
    bf!("a+b", '+', |a, b| a + b);
    bf!("a+&b", '+', |a, b| a + &b);
    bf!("a+&mut b", '+', |a, mut b| a + &mut b);
    bf!("a+=b", '+', |mut a, b| { a += b; a });
    bf!("a+=&b", '+', |mut a, b| { a += &b; a });
    bf!("a+=&mut b", '+', |mut a, mut b| { a += &mut b; a });
    bf!("a.add(&b)", '+', |a, b| a.i_add(&b));
    bf!("a-b", '-', |a, b| a - b);
    bf!("a-&b", '-', |a, b| a - &b);
    bf!("a-&mut b", '-', |a, mut b| a - &mut b);
    bf!("a-=b", '-', |mut a, b| { a -= b; a });
    bf!("a-=&b", '-', |mut a, b| { a -= &b; a });
    bf!("a-=&mut b", '-', |mut a, mut b| { a -= &mut b; a });
    bf!("a.sub(&b)", '-', |a, b| a.i_sub(&b));
    bf!("a*b", '*', |a, b| a * b);
    bf!("a*&b", '*', |a, b| a * &b);
    bf!("a*&mut b", '*', |a, mut b| a * &mut b);
    bf!("a*=b", '*', |mut a, b| { a *= b; a });
    bf!("a*=&b", '*', |mut a, b| { a *= &b; a });
    bf!("a*=&mut b", '*', |mut a, mut b| { a *= &mut b; a });
    bf!("a.mul(&b)", '*', |a, b| a.i_mul(&b));
    bf!("a/b", '/', |a, b| a / b);
    bf!("a/&b", '/', |a, b| a / &b);
    bf!("a/&mut b", '/', |a, mut b| a / &mut b);
    bf!("a/=b", '/', |mut a, b| { a /= b; a });
    bf!("a/=&b", '/', |mut a, b| { a /= &b; a });
    bf!("a/=&mut b", '/', |mut a, mut b| { a /= &mut b; a });
    v
}

pub fn un_forms<F: FS>() -> Vec<UnForm<F>> {
    let mut v: Vec<UnForm<F>> = vec![];
    v.push(UnForm { name: "-a", op: 'n', f: |a| Some(-a) });
    v.push(UnForm { name: "a.neg()", op: 'n', f: |a| Some(a.i_neg()) });
    v.push(UnForm { name: "a.square()", op: 's', f: |a| Some(a.i_square()) });
    v.push(UnForm { name: "a.inverse()", op: 'i', f: |a| a.i_inverse() });
    v
}

pub fn ref_bin(f: &Fld, op: char, a: &BigUint, b: &BigUint) -> Option<BigUint> {
    Some(match op {
        '+' => f.add(a, b),
        '-' => f.sub(a, b),
        '*' => f.mul(a, b),
        '/' => f.mul(a, &f.inv(b)?),
        _ => unreachable!(),
    })
}
pub fn ref_un(f: &Fld, op: char, a: &BigUint) -> Option<BigUint> {
    match op {
        'n' => Some(f.neg(a)),
        's' => Some(f.sqr(a)),
        'i' => f.inv(a),
        'd' => Some(f.add(a, a)),
        _ => unreachable!(),
    }
}

pub fn hexle(b: &BigUint, n: usize) -> String {
    hex::encode(to_le_n(b, n))
}
pub fn is_zero_big(b: &BigUint) -> bool {
    b.is_zero()
}

// -------------------------------------------------------------------------------------------
// fixed pseudo-random families: a deterministic splitmix64 stream (seeded by VERIF_SEED) whose
// first n outputs are PART OF THE LISTED DOMAIN. They add "unstructured" members (no special
// limb or bit pattern) next to the structured families; nothing is sampled at run time.

pub struct SplitMix(pub u64);
impl SplitMix {
    pub fn next(&mut self) -> u64 {
        self.0 = self.0.wrapping_add(0x9e3779b97f4a7c15);
        let mut z = self.0;
        z = (z ^ (z >> 30)).wrapping_mul(0xbf58476d1ce4e5b9);
        z = (z ^ (z >> 27)).wrapping_mul(0x94d049bb133111eb);
        z ^ (z >> 31)
    }
    pub fn bytes(&mut self, n: usize) -> Vec<u8> {
        let mut v = Vec::with_capacity(n + 8);
        while v.len() < n {
            v.extend_from_slice(&self.next().to_le_bytes());
        }
        v.truncate(n);
        v
    }
}
pub fn verif_seed() -> u64 {
    std::env::var("VERIF_SEED").ok().and_then(|s| s.parse().ok()).unwrap_or(0)
}
/// n pseudo-random field elements (uniform-ish: 2x wide reduction), stream label `tag`
pub fn prand(tag: u64, n: usize, p: &BigUint) -> Vec<BigUint> {
    let mut g = SplitMix(verif_seed() ^ tag.wrapping_mul(0xD6E8FEB86659FD93));
    let nb = ((p.bits() as usize + 7) / 8) * 2;
    (0..n).map(|_| BigUint::from_bytes_le(&g.bytes(nb)) % p).collect()
}

/// Boundary classes of a multi-limb comparison with p (both 32- and 64-bit limb views): values
/// that agree with p on all limbs above position i, differ at limb i by {-1, +1, +-2^(w-1), set to
/// 0 / max}, and carry one of five patterns in the limbs below. Every N-byte value < 2^(8N).
pub fn cmp_family(p: &BigUint, nbytes: usize) -> Vec<BigUint> {
    cmp_family_at(p, nbytes)
}
/// the same boundary classes around an arbitrary comparison constant c (e.g. (p-1)/2, the
/// constant of "upper half" sign tests)
pub fn cmp_family_at(p: &BigUint, nbytes: usize) -> Vec<BigUint> {
    let lim = BigUint::one() << (8 * nbytes);
    let mut v: Vec<BigUint> = vec![];
    for w in [32usize, 64] {
        let n = nbytes * 8 / w;
        let mask = (BigUint::one() << w) - 1u32;
        let limb = |x: &BigUint, i: usize| -> BigUint { (x >> (w * i)) & &mask };
        for i in 0..n {
            let hi = (p >> (w * (i + 1))) << (w * (i + 1));
            let pi = limb(p, i);
            let half = BigUint::one() << (w - 1);
            let mut mids: Vec<BigUint> = vec![pi.clone(), BigUint::zero(), mask.clone()];
            if pi > BigUint::zero() {
                mids.push(&pi - 1u32);
            }
            if pi < mask {
                mids.push(&pi + 1u32);
            }
            mids.push((&pi + &half) & &mask);
            mids.push((&pi + &half + 1u32) & &mask);
            let low_mask = (BigUint::one() << (w * i)) - 1u32;
            let plow = p & &low_mask;
            let mut lows: Vec<BigUint> = vec![BigUint::zero(), low_mask.clone(), plow.clone()];
            if plow > BigUint::zero() {
                lows.push(&plow - 1u32);
            }
            if plow < low_mask {
                lows.push(&plow + 1u32);
            }
            for m in &mids {
                for l in &lows {
                    let x = &hi + (m << (w * i)) + l;
                    if x < lim {
                        v.push(x);
                    }
                }
            }
        }
    }
    dedup(v)
}

/// Montgomery-domain limb patterns: canonical values x = m * R^-1 mod p whose INTERNAL
/// (Montgomery, R = 2^(8*nbytes)) representation is the structured limb pattern m.
/// level 0: all-zero / all-ones backgrounds with one distinguished 32-bit limb in
/// {1, 2, 2^31, 2^32-2, 2^32-1}, low-k / high-k limbs all ones, p-1, 1  (~10 n/4 + 2 n/4 values);
/// level 1: additionally every limb independently in {0, 2^32-1};
/// level 2: every limb independently in {0, 1, 2^32-1} (32-byte fields only).
pub fn mont_patterns(p: &BigUint, nbytes: usize, level: u8) -> Vec<BigUint> {
    let f = Fld::new(p.clone());
    let r_inv = f.inv(&((BigUint::one() << (8 * nbytes)) % p)).unwrap();
    let nl = nbytes / 4;
    let mut v: Vec<BigUint> = vec![BigUint::zero(), BigUint::one(), p - 1u32];
    for i in 0..nl {
        for pat in [1u32, 2, 0x8000_0000, 0xFFFF_FFFE, 0xFFFF_FFFF] {
            for fill in [0u8, 0xFF] {
                let mut b = vec![fill; nbytes];
                b[4 * i..4 * i + 4].copy_from_slice(&pat.to_le_bytes());
                v.push(BigUint::from_bytes_le(&b) % p);
            }
        }
        let mut lo = vec![0u8; nbytes];
        for x in lo[..4 * (i + 1)].iter_mut() {
            *x = 0xFF;
        }
        v.push(BigUint::from_bytes_le(&lo) % p);
        let mut hi = vec![0u8; nbytes];
        for x in hi[4 * i..].iter_mut() {
            *x = 0xFF;
        }
        v.push(BigUint::from_bytes_le(&hi) % p);
    }
    if level >= 1 {
        v.extend(s_limb(p, nbytes, &[0, 0xFFFF_FFFF]));
    }
    if level >= 2 && nbytes == 32 {
        v.extend(s_limb(p, nbytes, &[0, 1, 0xFFFF_FFFF]));
    }
    dedup(v).iter().map(|m| f.mul(m, &r_inv)).collect()
}

/// Borrow-chain classes of the conditional negation p - w (and of w - p): for every limb position i
/// (32- and 64-bit views) the case "w_i == p_i with a borrow coming in from below": limb i equals
/// p's, the part below is p's low part + 1 + j (j < nlow, both parities) or all ones, the part above is 0 or half
/// of p's high part (so the value is < p and otherwise unremarkable).
pub fn neg_family(p: &BigUint, nbytes: usize) -> Vec<BigUint> {
    neg_family_n(p, nbytes, 8)
}
pub fn neg_family_n(p: &BigUint, nbytes: usize, nlow: u32) -> Vec<BigUint> {
    let mut v: Vec<BigUint> = vec![];
    for w in [32usize, 64] {
        let n = nbytes * 8 / w;
        let mask = (BigUint::one() << w) - 1u32;
        for i in 1..n {
            let pi = (p >> (w * i)) & &mask;
            let low_mask = (BigUint::one() << (w * i)) - 1u32;
            let plow = p & &low_mask;
            let phi = p >> (w * (i + 1));
            let mut lows: Vec<BigUint> = vec![low_mask.clone()];
            for j in 0..nlow {
                let l = &plow + 1u32 + j;
                if l <= low_mask {
                    lows.push(l);
                }
            }
            for hi in [BigUint::zero(), &phi >> 1] {
                for l in &lows {
                    let x = (&hi << (w * (i + 1))) + (&pi << (w * i)) + l;
                    if x < *p {
                        v.push(x.clone());
                        // and the mirrored case for p - x
                        v.push(p - &x);
                    }
                }
            }
        }
    }
    dedup(v)
}

/// Values whose limbs cancel under XOR (64-bit and 32-bit views): what a zero / equality test
/// that folds limbs with `^` instead of `|` mistakes for zero.
pub fn xor_family(p: &BigUint, nbytes: usize) -> Vec<BigUint> {
    let mut v: Vec<BigUint> = vec![];
    let top_bits = p.bits() as usize;
    for w in [64usize, 32] {
        let n = nbytes * 8 / w;
        let mask: u128 = (1u128 << w) - 1;
        let top_room = top_bits - w * (n - 1); // usable bits of the top limb
        let top_mask: u128 = (1u128 << (top_room - 1)) - 1;
        let a_vals: Vec<u128> = vec![1, 2, 0x5555_5555_5555_5555 & mask, 0x0123_4567_89AB_CDEF & mask, mask, mask - 1, 1u128 << (w - 1)];
        let mk = |limbs: &[u128]| -> BigUint {
            let mut x = BigUint::zero();
            for (i, l) in limbs.iter().enumerate() {
                x += BigUint::from(*l) << (w * i);
            }
            x
        };
        for a in &a_vals {
            // (a, a, 0, ...) in every pair of positions below the top limb
            for i in 0..n - 1 {
                for j in (i + 1)..n - 1 {
                    let mut l = vec![0u128; n];
                    l[i] = *a;
                    l[j] = *a;
                    v.push(mk(&l));
                }
            }
            // (a, b, a^b, 0..) and four-limb cancellation including a small top limb
            let b = 0x0F1E_2D3C_4B5A_6978u128 & mask;
            if n >= 4 {
                let mut l = vec![0u128; n];
                l[0] = *a;
                l[1] = b;
                l[2] = *a ^ b;
                v.push(mk(&l));
                let t = (*a ^ b) & top_mask;
                let mut l = vec![0u128; n];
                l[n - 1] = t;
                l[0] = *a;
                l[1] = b;
                l[2] = *a ^ b ^ t;
                v.push(mk(&l));
                let mut l = vec![0u128; n];
                l[n - 1] = *a & top_mask;
                l[n - 2] = *a & top_mask;
                l[0] = b;
                l[1] = b;
                v.push(mk(&l));
            }
        }
    }
    v.retain(|x| x < p && !x.is_zero());
    dedup(v)
}

/// the union used as TARGETS for intermediates of the high-level routines
pub fn target_family(p: &BigUint, nbytes: usize) -> Vec<BigUint> {
    let half = (p - 1u32) >> 1;
    let mut v = cmp_family_at(p, nbytes);
    v.extend(cmp_family_at(&half, nbytes));
    v.extend(neg_family(p, nbytes));
    v.extend(xor_family(p, nbytes));
    // values whose INTERNAL (Montgomery) representation is a structured limb pattern
    v.extend(mont_patterns(p, nbytes, 0));
    for i in 1..8u32 {
        v.push(BigUint::from(i));
        v.push(p - i);
    }
    v.retain(|x| x < p && !x.is_zero());
    dedup(v)
}
