//! C07 -- hash-to-group equals the specified (unoptimised) Elligator 2 map.
use crate::core::*;
use crate::sut::*;
use num_bigint::BigUint;
use num_traits::{One, Zero};
use rayon::prelude::*;
use refmodel::curve::Pt;
use refmodel::fld::{to32, u};
use refmodel::spec::Decaf;
use serde_json::{json, Value};
use std::sync::Arc;

fn mkv(key: &str, r0: &BigUint, r1: Option<&BigUint>, expected: String, got: String) -> Viol {
    Viol { key: format!("C07|{key}"), engine: "E3/C07".into(), case: json!({"r0": hex::encode(to32(r0)), "r1": r1.map(|x| hex::encode(to32(x)))}), expected, got }
}

/// class-level comparison of a real element with a reference point; also validity of the
/// internal representative (Z != 0, TZ = XY)
fn matches_pt(dc: &Decaf, e: &Element, p: &Pt) -> bool {
    let f = dc.f();
    let cb = coords_big(&el_coords(e));
    if cb[2].is_zero() || f.mul(&cb[3], &cb[2]) != f.mul(&cb[0], &cb[1]) {
        return false;
    }
    let (ex, ey) = (f.mul(&p.x, &cb[2]), f.mul(&p.y, &cb[2]));
    (cb[0] == ex && cb[1] == ey) || (cb[0] == f.neg(&ex) && cb[1] == f.neg(&ey))
}

pub fn eval_one(dc: &Decaf, r0: &BigUint) -> Outcome {
    let f = dc.f();
    let class = dc.elligator_class(r0).to_string();
    let want = dc.elligator_spec(r0);
    let got = Element::encode_to_curve(&fq(r0));
    if !matches_pt(dc, &got, &want) {
        return Outcome::bad(class, mkv("map", r0, None, format!("elligatorSpec = ({}, {})", want.x, want.y), format!("{:?}", hex_coords(&el_coords(&got)))));
    }
    let want_enc = dc.encode_spec_bytes(&want).expect("spec output encodes");
    let got_enc = got.vartime_compress().0;
    if got_enc != want_enc {
        return Outcome::bad(class, mkv("map-encoding", r0, None, hex::encode(want_enc), hex::encode(got_enc)));
    }
    // sign symmetry
    let neg = Element::encode_to_curve(&fq(&f.neg(r0)));
    if !(neg == got) || neg.vartime_compress().0 != got_enc {
        return Outcome::bad(class, mkv("sign-symmetry", r0, None, "map(-r0) == map(r0)".into(), hex::encode(neg.vartime_compress().0)));
    }
    // validity through the real API: encoding decodes back to an equal element
    match Encoding(got_enc).vartime_decompress() {
        Ok(d) if d == got => {}
        _ => return Outcome::bad(class, mkv("valid", r0, None, "encoding of the output decodes to an equal element".into(), "does not".into())),
    }
    let sflip = if want.x.is_zero() { "id" } else { "pt" };
    Outcome::ok(format!("{class}/{sflip}"))
}

pub fn eval_pair(dc: &Decaf, a: &BigUint, b: &BigUint) -> Outcome {
    let want = dc.c.add(&dc.elligator_spec(a), &dc.elligator_spec(b));
    let got = Element::hash_to_curve(&fq(a), &fq(b));
    let class = format!("pair/{}+{}", dc.elligator_class(a), dc.elligator_class(b));
    if !matches_pt(dc, &got, &want) {
        return Outcome::bad(class, mkv("hash_to_curve", a, Some(b), format!("sum of the two maps = ({}, {})", want.x, want.y), format!("{:?}", hex_coords(&el_coords(&got)))));
    }
    Outcome::ok(class)
}

pub fn domain(dc: &Decaf, quick: bool) -> Vec<BigUint> {
    let f = dc.f();
    let q = &f.p;
    let mut v: Vec<BigUint> = vec![];
    let top = if quick { 1u64 << 16 } else { 1u64 << 20 };
    for i in 0..top {
        v.push(u(i));
    }
    // negatives of a sub-interval (sign symmetry is also checked per value)
    for i in 1..(top.min(1 << 12)) {
        v.push(q - i);
    }
    v.push((q - 1u32) >> 1);
    v.push((q + 1u32) >> 1);
    for k in 0..253u32 {
        v.push((BigUint::one() << k) % q);
        v.push(((BigUint::one() << k) + 1u32) % q);
        v.push(((BigUint::one() << k) - 1u32) % q);
    }
    // the 48 roots of unity g^(2^j), g = zeta^M generator of the 2-Sylow subgroup
    let mut g = f.pow(&dc.zeta, &f.t);
    for _ in 0..48 {
        v.push(g.clone());
        v.push(f.neg(&g));
        g = f.sqr(&g);
    }
    let mut z = BigUint::one();
    for _ in 0..64 {
        v.push(z.clone());
        z = f.mul(&z, &dc.zeta);
    }
    // limb patterns
    for pat in crate::fields::s_limb(q, 32, &[0, 0xFFFF_FFFF]) {
        v.push(pat);
    }
    // r0 solved for so that the inner inverse-square-root argument has a structured 2-primary
    // discrete log (every table digit value, roots of unity, all-ones ...)
    let r0s = crate::sqrtclass::elligator_r0s(dc, quick);
    if std::env::var("VERIF_DEBUG").is_ok() {
        for e in [0u64, 1, 2, (1 << 47) - 1, (1 << 47) - 2] {
            eprintln!("[debug] elligator r0 with inner dlog e={e}: {}", r0s.iter().filter(|x| x.1 == e).count());
        }
    }
    for (r0, _) in r0s {
        v.push(r0);
    }
    // r0 solved for so that a named intermediate of the map (r, den, num, num*den, s) is a
    // boundary class of limb-wise comparison / negation / XOR-folding
    for (r0, _) in crate::sqrtclass::elligator_by_intermediate(dc) {
        v.push(r0);
    }
    // unstructured members: a fixed pseudo-random family
    v.extend(crate::fields::prand(0x07, if quick { 1 << 12 } else { 1 << 16 }, q));
    crate::fields::dedup(v)
}

/// Algebraic analysis of the singular loci of the optimised map, redone at every run:
/// r = zeta*r0^2 with den = 0, num = 0, or s^2 = 1 has no solution r0 in Fq.
pub fn singular_loci(dc: &Decaf) -> Value {
    let f = dc.f();
    let (a, d) = (&dc.c.a, &dc.c.d);
    let dma = f.sub(d, a);
    let cands = vec![
        ("den=0: r=(d-a)/d", f.div(&dma, d)),
        ("den=0: r=d/(d-a)", f.div(d, &dma)),
        ("num=0: r=-1", f.neg(&BigUint::one())),
    ];
    let mut out = vec![];
    for (n, r) in cands {
        // r = zeta*r0^2 solvable iff r/zeta is a square
        let solvable = f.is_square(&f.div(&r, &dc.zeta));
        out.push(json!({"locus": n, "has_preimage_r0": solvable && !r.is_zero()}));
    }
    Value::Array(out)
}

pub fn run(ctx: &Arc<Ctx>) {
    let dc = Decaf::new();
    let dom = domain(&dc, ctx.quick());
    run_cases(
        ctx, "E3/C07-map", false,
        dom.par_iter(),
        |r0| eval_one(&dc, r0),
        |r0| ("map".into(), json!({"r0": hex::encode(to32(r0))})),
    );
    // pairs: grid of structured values
    let mut pv: Vec<BigUint> = vec![];
    let np = ctx.t(48u64, 160);
    for i in 0..np {
        pv.push(u(i));
    }
    pv.push(&dc.f().p - 1u32);
    pv.push((&dc.f().p - 1u32) >> 1);
    pv.push(dc.zeta.clone());
    pv.push(u(3021));
    let k = pv.len();
    run_cases(
        ctx, "E3/C07-pair", false,
        (0..k * k).into_par_iter().map(|i| (i / k, i % k)),
        |&(i, j)| eval_pair(&dc, &pv[i], &pv[j]),
        |&(i, j)| ("hash_to_curve".into(), json!({"r0": hex::encode(to32(&pv[i])), "r1": hex::encode(to32(&pv[j]))})),
    );
    let r = &ctx.report;
    let loci = singular_loci(&dc);
    if loci.as_array().unwrap().iter().any(|l| l["has_preimage_r0"] == json!(true)) {
        r.machinery_error("C07: a singular locus of the optimised Elligator map has a preimage; the design-time analysis no longer holds");
    }
    r.set("singular_loci", loci);
    // every control class must be populated
    for need in ["r0=0/id", "square/pt", "nonsquare/pt"] {
        let n = r.classes.get(need).map(|x| *x).unwrap_or(0);
        if n < if need == "r0=0/id" { 1 } else { 1000 } {
            r.machinery_error(format!("C07: control class {need} hit only {n} times"));
        }
    }
    r.rule(format!("E3/C07[{BUILD}]: encode_to_curve on {} field elements (complete interval, negatives, 2^k+-1, roots of unity of every 2-power order and their negatives, zeta^k, limb patterns, r0 solved for structured square-root digits of the inner argument and for boundary classes (target_family) of r / den / num / num*den / s, a fixed pseudo-random family) vs elligatorSpec (class, encoding, sign symmetry, validity); hash_to_curve on the full {k}x{k} grid vs the reference sum; distinct by input", dom.len()));
}

pub fn replay(case: &Value) -> (bool, Value) {
    let dc = Decaf::new();
    let hx = |v: &Value| BigUint::from_bytes_le(&hex::decode(v.as_str().unwrap_or("")).unwrap_or_default());
    let r0 = hx(&case["r0"]);
    let o = if case["r1"].is_string() { eval_pair(&dc, &r0, &hx(&case["r1"])) } else { eval_one(&dc, &r0) };
    match o.viol {
        Some(v) => (false, json!({"class": o.class, "expected": v.expected, "got": v.got})),
        None => (true, json!({"class": o.class})),
    }
}
