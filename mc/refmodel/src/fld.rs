//! Naive prime-field arithmetic over `BigUint`. Deliberately boring: every
//! operation is "compute in the integers, reduce mod p".
use num_bigint::BigUint;
use num_traits::{One, Zero};

#[derive(Clone, Debug)]
pub struct Fld {
    pub p: BigUint,
    /// p - 1 = 2^s * t with t odd
    pub s: u32,
    pub t: BigUint,
    /// least quadratic non-residue (found by Euler's criterion), used by Tonelli-Shanks only
    pub nonres: BigUint,
}

pub fn big(s: &str) -> BigUint {
    if let Some(h) = s.strip_prefix("0x") {
        BigUint::parse_bytes(h.as_bytes(), 16).expect("hex literal")
    } else {
        BigUint::parse_bytes(s.as_bytes(), 10).expect("decimal literal")
    }
}

pub fn u(x: u64) -> BigUint {
    BigUint::from(x)
}

impl Fld {
    pub fn new(p: BigUint) -> Self {
        let one = BigUint::one();
        let mut t = &p - &one;
        let mut s = 0u32;
        while (&t & &one).is_zero() {
            t >>= 1;
            s += 1;
        }
        let mut f = Fld { p, s, t, nonres: BigUint::zero() };
        let mut z = u(2);
        while f.legendre(&z) != -1 {
            z += 1u32;
        }
        f.nonres = z;
        f
    }
    pub fn red(&self, x: &BigUint) -> BigUint {
        x % &self.p
    }
    pub fn add(&self, a: &BigUint, b: &BigUint) -> BigUint {
        (a + b) % &self.p
    }
    pub fn sub(&self, a: &BigUint, b: &BigUint) -> BigUint {
        ((a + &self.p) - (b % &self.p)) % &self.p
    }
    pub fn neg(&self, a: &BigUint) -> BigUint {
        (&self.p - (a % &self.p)) % &self.p
    }
    pub fn mul(&self, a: &BigUint, b: &BigUint) -> BigUint {
        (a * b) % &self.p
    }
    pub fn sqr(&self, a: &BigUint) -> BigUint {
        (a * a) % &self.p
    }
    pub fn pow(&self, a: &BigUint, e: &BigUint) -> BigUint {
        a.modpow(e, &self.p)
    }
    /// textbook square-and-multiply, independent of num-bigint's modpow (used to cross-check it)
    pub fn pow_naive(&self, a: &BigUint, e: &BigUint) -> BigUint {
        let mut acc = BigUint::one();
        let mut base = a % &self.p;
        let bits = e.bits();
        for i in 0..bits {
            if e.bit(i) {
                acc = self.mul(&acc, &base);
            }
            base = self.sqr(&base);
        }
        acc
    }
    pub fn inv(&self, a: &BigUint) -> Option<BigUint> {
        let a = a % &self.p;
        if a.is_zero() {
            None
        } else {
            Some(a.modpow(&(&self.p - 2u32), &self.p))
        }
    }
    pub fn div(&self, a: &BigUint, b: &BigUint) -> BigUint {
        self.mul(a, &self.inv(b).expect("reference division by zero"))
    }
    /// Euler: 0 -> 0, residue -> 1, non-residue -> -1
    pub fn legendre(&self, a: &BigUint) -> i8 {
        let a = a % &self.p;
        if a.is_zero() {
            return 0;
        }
        let e = (&self.p - 1u32) >> 1;
        if a.modpow(&e, &self.p).is_one() {
            1
        } else {
            -1
        }
    }
    /// sage's is_square: 0 is a square
    pub fn is_square(&self, a: &BigUint) -> bool {
        self.legendre(a) >= 0
    }
    /// Textbook Tonelli-Shanks; returns some root (no sign normalisation).
    pub fn sqrt(&self, a: &BigUint) -> Option<BigUint> {
        let a = a % &self.p;
        if a.is_zero() {
            return Some(a);
        }
        if self.legendre(&a) != 1 {
            return None;
        }
        let mut m = self.s;
        let mut c = self.nonres.modpow(&self.t, &self.p);
        let mut t = a.modpow(&self.t, &self.p);
        let mut r = a.modpow(&((&self.t + 1u32) >> 1), &self.p);
        while !t.is_one() {
            // least i with t^(2^i) = 1
            let mut i = 0u32;
            let mut tt = t.clone();
            while !tt.is_one() {
                tt = self.sqr(&tt);
                i += 1;
                assert!(i < m, "tonelli-shanks: not a residue");
            }
            let mut b = c.clone();
            for _ in 0..(m - i - 1) {
                b = self.sqr(&b);
            }
            m = i;
            c = self.sqr(&b);
            t = self.mul(&t, &c);
            r = self.mul(&r, &b);
        }
        debug_assert_eq!(self.sqr(&r), a);
        Some(r)
    }
    pub fn is_neg(&self, a: &BigUint) -> bool {
        (a % &self.p).bit(0)
    }
    /// the root with even canonical representative (sage `xsqrt`)
    pub fn xsqrt(&self, a: &BigUint) -> Option<BigUint> {
        self.sqrt(a).map(|r| if r.bit(0) { self.neg(&r) } else { r })
    }
    pub fn from_le(&self, b: &[u8]) -> BigUint {
        BigUint::from_bytes_le(b) % &self.p
    }
    pub fn to_le(&self, a: &BigUint, n: usize) -> Vec<u8> {
        let mut v = (a % &self.p).to_bytes_le();
        assert!(v.len() <= n);
        v.resize(n, 0);
        v
    }
}

pub fn int_le(b: &[u8]) -> BigUint {
    BigUint::from_bytes_le(b)
}
pub fn to_le_n(a: &BigUint, n: usize) -> Vec<u8> {
    let mut v = a.to_bytes_le();
    if a.is_zero() {
        v.clear();
    }
    assert!(v.len() <= n, "value does not fit in {n} bytes");
    v.resize(n, 0);
    v
}
pub fn to32(a: &BigUint) -> [u8; 32] {
    let v = to_le_n(a, 32);
    let mut o = [0u8; 32];
    o.copy_from_slice(&v);
    o
}
pub fn limbs4(a: &BigUint) -> [u64; 4] {
    let v = to_le_n(a, 32);
    let mut o = [0u64; 4];
    for i in 0..4 {
        o[i] = u64::from_le_bytes(v[8 * i..8 * i + 8].try_into().unwrap());
    }
    o
}
pub fn from_limbs(l: &[u64]) -> BigUint {
    let mut b = Vec::with_capacity(l.len() * 8);
    for x in l {
        b.extend_from_slice(&x.to_le_bytes());
    }
    BigUint::from_bytes_le(&b)
}

/// Miller-Rabin with the first 24 prime bases (deterministic enough for re-verifying
/// claimed factorisations; a composite passing all 24 bases is not a realistic event).
pub fn is_probable_prime(n: &BigUint) -> bool {
    let small = [2u32, 3, 5, 7, 11, 13, 17, 19, 23, 29, 31, 37, 41, 43, 47, 53, 59, 61, 67, 71, 73, 79, 83, 89];
    if *n < u(2) {
        return false;
    }
    for &q in &small {
        if *n == BigUint::from(q) {
            return true;
        }
        if (n % q).is_zero() {
            return false;
        }
    }
    let one = BigUint::one();
    let nm1 = n - &one;
    let mut d = nm1.clone();
    let mut s = 0;
    while !d.bit(0) {
        d >>= 1;
        s += 1;
    }
    'outer: for &a in &small {
        let mut x = BigUint::from(a).modpow(&d, n);
        if x.is_one() || x == nm1 {
            continue;
        }
        for _ in 0..s - 1 {
            x = (&x * &x) % n;
            if x == nm1 {
                continue 'outer;
            }
        }
        return false;
    }
    true
}
