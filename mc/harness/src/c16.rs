//! C16 -- the exported BLS12-377 engine (over the crate's own fields) equals the reference
//! arkworks engine: generators, scalar multiples, (de)serialisation both ways, pairings,
//! bilinearity, non-degeneracy, and the extension tower (arithmetic + Frobenius).
use crate::core::*;
use ark_ec::pairing::{Pairing, PairingOutput};
use ark_ec::{AffineRepr, CurveGroup, Group};
use ark_ec::short_weierstrass::SWCurveConfig;
use ark_ff::{BigInteger, Field, PrimeField, Zero};
use ark_serialize::{CanonicalDeserialize, CanonicalSerialize};
use num_bigint::BigUint;
use rayon::prelude::*;
use refmodel::fld::{big, u};
use refmodel::spec::Q_DEC;
use serde_json::{json, Value};
use std::sync::Arc;

type D = decaf377::Bls12_377;
type R = ark_bls12_377::Bls12_377;

fn ser_c<T: CanonicalSerialize>(t: &T) -> Vec<u8> {
    let mut v = vec![];
    t.serialize_compressed(&mut v).unwrap();
    v
}
fn ser_u<T: CanonicalSerialize>(t: &T) -> Vec<u8> {
    let mut v = vec![];
    t.serialize_uncompressed(&mut v).unwrap();
    v
}
fn limbs(k: &BigUint) -> Vec<u64> {
    crate::sut::limbs_n(k, ((k.bits() as usize + 63) / 64).max(1))
}

pub fn scalars(quick: bool) -> Vec<(String, BigUint)> {
    let q = big(Q_DEC);
    let mut v: Vec<(String, BigUint)> = vec![("0".into(), u(0)), ("1".into(), u(1)), ("2".into(), u(2)), ("3".into(), u(3)), ("q-1".into(), &q - 1u32), ("(q-1)/2".into(), (&q - 1u32) >> 1), ("(q+1)/2".into(), (&q + 1u32) >> 1)];
    let ks: Vec<u32> = if quick { vec![8, 31, 32, 64, 127, 200, 252] } else { (1..253).step_by(9).collect() };
    for k in ks {
        v.push((format!("2^{k}"), BigUint::from(1u8) << k));
    }
    v.push(("0x5555..".into(), BigUint::from_bytes_le(&[0x55u8; 31])));
    v.push(("0xAAAA..".into(), BigUint::from_bytes_le(&[0xAAu8; 31]) % &q));
    v
}

fn mkv(what: &str, case: Value, expected: String, got: String) -> Viol {
    Viol { key: format!("C16|{what}"), engine: "E3/C16".into(), case, expected, got }
}

pub fn eval_points(name: &str, k: &BigUint) -> Outcome {
    let case = json!({"kind": "points", "scalar": name, "k": k.to_string()});
    let l = limbs(k);
    let d1 = <D as Pairing>::G1Affine::generator().mul_bigint(&l).into_affine();
    let r1 = <R as Pairing>::G1Affine::generator().mul_bigint(&l).into_affine();
    let d2 = <D as Pairing>::G2Affine::generator().mul_bigint(&l).into_affine();
    let r2 = <R as Pairing>::G2Affine::generator().mul_bigint(&l).into_affine();
    let class = format!("points/{}", if k.is_zero() { "infinity" } else { "finite" });
    for (what, a, b) in [("k*G1 compressed", ser_c(&d1), ser_c(&r1)), ("k*G1 uncompressed", ser_u(&d1), ser_u(&r1)), ("k*G2 compressed", ser_c(&d2), ser_c(&r2)), ("k*G2 uncompressed", ser_u(&d2), ser_u(&r2))] {
        if a != b {
            return Outcome::bad(class, mkv(what, case, hex::encode(&b), hex::encode(&a)));
        }
    }
    // scalar-field forms: Mul<ScalarField>
    let ds = <D as Pairing>::ScalarField::from_le_bytes_mod_order(&k.to_bytes_le());
    let rs = <R as Pairing>::ScalarField::from_le_bytes_mod_order(&k.to_bytes_le());
    let d1b = (<D as Pairing>::G1::generator() * ds).into_affine();
    let r1b = (<R as Pairing>::G1::generator() * rs).into_affine();
    let d2b = (<D as Pairing>::G2::generator() * ds).into_affine();
    let r2b = (<R as Pairing>::G2::generator() * rs).into_affine();
    if ser_c(&d1b) != ser_c(&r1b) || ser_c(&d2b) != ser_c(&r2b) || ser_c(&d1b) != ser_c(&d1) {
        return Outcome::bad(class, mkv("generator * scalar-field element", case, "equal to reference".into(), "differs".into()));
    }
    // cross-deserialisation both ways, compressed and uncompressed
    let x1 = <R as Pairing>::G1Affine::deserialize_compressed(&ser_c(&d1)[..]).ok().map(|p| ser_u(&p));
    let x2 = <D as Pairing>::G1Affine::deserialize_compressed(&ser_c(&r1)[..]).ok().map(|p| ser_u(&p));
    let x3 = <R as Pairing>::G2Affine::deserialize_uncompressed(&ser_u(&d2)[..]).ok().map(|p| ser_c(&p));
    let x4 = <D as Pairing>::G2Affine::deserialize_uncompressed(&ser_u(&r2)[..]).ok().map(|p| ser_c(&p));
    let x5 = <D as Pairing>::G2Affine::deserialize_compressed(&ser_c(&r2)[..]).ok().map(|p| ser_u(&p));
    if x1 != Some(ser_u(&r1)) || x2 != Some(ser_u(&d1)) || x3 != Some(ser_c(&r2)) || x4 != Some(ser_c(&d2)) || x5 != Some(ser_u(&d2)) {
        return Outcome::bad(class, mkv("cross-deserialisation", case, "both engines parse each other's points to the same point".into(), format!("{:?}", [x1.is_some(), x2.is_some(), x3.is_some(), x4.is_some(), x5.is_some()])));
    }
    // malleability: add k*p to each 48-byte coefficient slot of the reference engine's encodings;
    // both engines must agree on accept/reject and, if accepted, on the value
    let p_mod = big(refmodel::spec::P_HEX);
    let blobs: Vec<(&str, Vec<u8>)> = vec![("G1 uncompressed", ser_u(&r1)), ("G1 compressed", ser_c(&r1)), ("G2 uncompressed", ser_u(&r2)), ("G2 compressed", ser_c(&r2))];
    for (what, blob) in blobs {
        for slot in 0..blob.len() / 48 {
            for kmul in [1u32, 3, 100] {
                let v = BigUint::from_bytes_le(&blob[48 * slot..48 * slot + 48]) + &p_mod * kmul;
                if v.bits() > 384 {
                    continue;
                }
                let mut b2 = blob.clone();
                b2[48 * slot..48 * slot + 48].copy_from_slice(&refmodel::fld::to_le_n(&v, 48));
                let (dv, rv): (Option<Vec<u8>>, Option<Vec<u8>>) = match what {
                    "G1 uncompressed" => (<D as Pairing>::G1Affine::deserialize_uncompressed(&b2[..]).ok().map(|x| ser_u(&x)), <R as Pairing>::G1Affine::deserialize_uncompressed(&b2[..]).ok().map(|x| ser_u(&x))),
                    "G1 compressed" => (<D as Pairing>::G1Affine::deserialize_compressed(&b2[..]).ok().map(|x| ser_u(&x)), <R as Pairing>::G1Affine::deserialize_compressed(&b2[..]).ok().map(|x| ser_u(&x))),
                    "G2 uncompressed" => (<D as Pairing>::G2Affine::deserialize_uncompressed(&b2[..]).ok().map(|x| ser_u(&x)), <R as Pairing>::G2Affine::deserialize_uncompressed(&b2[..]).ok().map(|x| ser_u(&x))),
                    _ => (<D as Pairing>::G2Affine::deserialize_compressed(&b2[..]).ok().map(|x| ser_u(&x)), <R as Pairing>::G2Affine::deserialize_compressed(&b2[..]).ok().map(|x| ser_u(&x))),
                };
                if dv != rv {
                    return Outcome::bad(class, mkv("non-canonical coefficient", json!({"kind": "points", "scalar": name, "k": k.to_string(), "blob": what, "slot": slot, "plus_p_times": kmul}), format!("same verdict as the reference engine (accepts: {})", rv.is_some()), format!("accepts: {}", dv.is_some())));
                }
            }
        }
    }
    // on curve / subgroup checks of the crate's engine accept its own points
    if !d1.is_on_curve() || !d1.is_in_correct_subgroup_assuming_on_curve() || !d2.is_on_curve() || !d2.is_in_correct_subgroup_assuming_on_curve() {
        return Outcome::bad(class, mkv("validity", case, "on curve and in the prime-order subgroup".into(), "rejected".into()));
    }
    Outcome::ok(class)
}

pub fn eval_pairing(na: &str, a: &BigUint, nb: &str, b: &BigUint, base_d: &PairingOutput<D>) -> Outcome {
    let case = json!({"kind": "pairing", "a": na, "b": nb, "ka": a.to_string(), "kb": b.to_string()});
    let q = big(Q_DEC);
    let (la, lb) = (limbs(a), limbs(b));
    let dp = <D as Pairing>::G1Affine::generator().mul_bigint(&la).into_affine();
    let dq = <D as Pairing>::G2Affine::generator().mul_bigint(&lb).into_affine();
    let rp = <R as Pairing>::G1Affine::generator().mul_bigint(&la).into_affine();
    let rq = <R as Pairing>::G2Affine::generator().mul_bigint(&lb).into_affine();
    let de = D::pairing(dp, dq);
    let re = R::pairing(rp, rq);
    let class = format!("pairing/{}", if (a * b % &q).is_zero() { "degenerate-input" } else { "generic" });
    if ser_u(&de) != ser_u(&re) || ser_c(&de) != ser_c(&re) {
        return Outcome::bad(class, mkv("pairing output", case, hex::encode(&ser_c(&re)[..32]), hex::encode(&ser_c(&de)[..32])));
    }
    // target-field encodings with a non-canonical coefficient: same verdict in both engines
    {
        let p_mod = big(refmodel::spec::P_HEX);
        let blob = ser_u(&re);
        for slot in [0usize, 5, 7, 11] {
            let v = BigUint::from_bytes_le(&blob[48 * slot..48 * slot + 48]) + &p_mod * 20u32;
            if v.bits() > 384 {
                continue;
            }
            let mut b2 = blob.clone();
            b2[48 * slot..48 * slot + 48].copy_from_slice(&refmodel::fld::to_le_n(&v, 48));
            let dv = PairingOutput::<D>::deserialize_uncompressed(&b2[..]).ok().map(|x| ser_u(&x));
            let rv = PairingOutput::<R>::deserialize_uncompressed(&b2[..]).ok().map(|x| ser_u(&x));
            if dv != rv {
                return Outcome::bad(class, mkv("non-canonical target-field coefficient", case, format!("same verdict as the reference engine (accepts: {})", rv.is_some()), format!("accepts: {}", dv.is_some())));
            }
        }
    }
    // bilinearity: e(aP, bQ) = e(P, Q)^(ab)
    let ab = (a * b) % &q;
    let want = base_d.mul_bigint(&limbs(&ab));
    if want != de {
        return Outcome::bad(class, mkv("bilinearity", case, "e(aP,bQ) == e(P,Q)^(ab)".into(), "differs".into()));
    }
    // multi-pairing and miller loop + final exponentiation agree with pairing()
    let mp = D::multi_pairing([dp], [dq]);
    let ml = D::final_exponentiation(D::miller_loop(dp, dq));
    if mp != de || ml != Some(de) {
        return Outcome::bad(class, mkv("multi_pairing / miller_loop+final_exponentiation", case, "equal to pairing()".into(), "differs".into()));
    }
    if ab.is_zero() != de.is_zero() {
        return Outcome::bad(class, mkv("non-degeneracy", case, format!("identity iff ab = 0 mod q ({})", ab.is_zero()), format!("{}", de.is_zero())));
    }
    Outcome::ok(class)
}

/// tower arithmetic + Frobenius of structured Fp12 elements, byte-equal with the reference tower
pub fn eval_tower(idx: usize) -> Outcome {
    type DF = <D as Pairing>::TargetField;
    type RF = <R as Pairing>::TargetField;
    let case = json!({"kind": "tower", "element": idx});
    let coeffs = |i: usize| -> Vec<u64> {
        // idx < 12: basis element; otherwise dense structured elements
        (0..12).map(|j| if i < 12 { (i == j) as u64 } else { ((i as u64 + 3) * (j as u64 + 1) * 0x9e3779b9 + 7) % 0xffff_fffb }).collect()
    };
    let mk_d = |c: &[u64]| DF::from_base_prime_field_elems(&c.iter().map(|x| decaf377::Fp::from(*x)).collect::<Vec<_>>()).unwrap();
    let mk_r = |c: &[u64]| RF::from_base_prime_field_elems(&c.iter().map(|x| ark_bls12_377::Fq::from(*x)).collect::<Vec<_>>()).unwrap();
    let (c1, c2) = (coeffs(idx), coeffs(idx + 5));
    let (d1, d2, r1, r2) = (mk_d(&c1), mk_d(&c2), mk_r(&c1), mk_r(&c2));
    let class = format!("tower/{}", if idx < 12 { "basis" } else { "dense" });
    if ser_u(&d1) != ser_u(&r1) {
        return Outcome::bad(class, mkv("tower element layout", case, "same bytes".into(), "differs".into()));
    }
    for (what, a, b) in [
        ("tower mul", ser_u(&(d1 * d2)), ser_u(&(r1 * r2))),
        ("tower square", ser_u(&d1.square()), ser_u(&r1.square())),
        ("tower add", ser_u(&(d1 + d2)), ser_u(&(r1 + r2))),
        ("tower inverse", d1.inverse().map(|x| ser_u(&x)).unwrap_or_default(), r1.inverse().map(|x| ser_u(&x)).unwrap_or_default()),
        ("tower pow", ser_u(&d1.pow([0xdead_beef_u64, 5])), ser_u(&r1.pow([0xdead_beef_u64, 5]))),
    ] {
        if a != b {
            return Outcome::bad(class, mkv(what, case, "byte-equal with the reference tower".into(), "differs".into()));
        }
    }
    for i in 0..12usize {
        if ser_u(&d1.frobenius_map(i)) != ser_u(&r1.frobenius_map(i)) {
            return Outcome::bad(class, mkv("frobenius_map", json!({"kind": "tower", "element": idx, "power": i}), "byte-equal with the reference tower".into(), "differs (a literal Frobenius coefficient is wrong)".into()));
        }
    }
    Outcome::ok(class)
}


// ---- crafted curve points: y solved into the boundary classes of the sign comparison ----------
// The compressed form of a point stores one flag, decided by comparing y with -y (G1: as integers;
// G2: c1 first, then c0). Points k*G never bring y near the boundaries of that comparison, so y
// (resp. y.c1) is CHOSEN from the boundary classes of a multi-limb comparison around (p-1)/2 and
// p, and x is solved for: x^3 = y^2 - b has a solution iff (y^2-b)^(|F*|/3) = 1, and then
// x = (y^2-b)^(1/3 mod |F*|/3), because 3 divides |F*| exactly once for both Fp and Fp2 (asserted).
// The points lie on the curve but in general not in the prime-order subgroup, so the unchecked
// deserialisation entry points are compared as well as the checked ones (which must agree).
type RF1 = <<R as Pairing>::G1Affine as AffineRepr>::BaseField;
type RF2 = <<R as Pairing>::G2Affine as AffineRepr>::BaseField;
type DF1 = <<D as Pairing>::G1Affine as AffineRepr>::BaseField;
type DF2 = <<D as Pairing>::G2Affine as AffineRepr>::BaseField;

fn fp_of<F: PrimeField>(x: &BigUint) -> F {
    F::from_le_bytes_mod_order(&x.to_bytes_le())
}

/// all cube roots of c in F, |F*| = order_minus_one = 3t with 3 not dividing t
fn cube_roots<F: Field>(c: &F, order_minus_one: &BigUint) -> Vec<F> {
    if c.is_zero() {
        return vec![F::zero()];
    }
    let t = order_minus_one / 3u32;
    let tm3 = (&t % 3u32).to_u32_digits().first().copied().unwrap_or(0);
    assert!(tm3 != 0 && &t * 3u32 == *order_minus_one, "3 divides |F*| exactly once");
    if c.pow(limbs(&t)) != F::one() {
        return vec![];
    }
    // k = 3^-1 mod t
    let k = if tm3 == 2 { (&t + 1u32) / 3u32 } else { (&t * 2u32 + 1u32) / 3u32 };
    let x = c.pow(limbs(&k));
    assert!(x.square() * x == *c, "cube root construction");
    // a primitive cube root of unity: e^t for the first small e that is not a cube
    let mut w = F::one();
    for e in 2u64..50 {
        let cand = F::from(e).pow(limbs(&t));
        if cand != F::one() {
            w = cand;
            break;
        }
    }
    assert!(w != F::one() && w.square() * w == F::one());
    vec![x, x * w, x * w.square()]
}

pub fn crafted_ys(quick: bool) -> Vec<BigUint> {
    let p = big(refmodel::spec::P_HEX);
    let mut v = crate::fields::target_family(&p, 48);
    if quick {
        // keep every class but thin the within-class patterns
        v = v.into_iter().enumerate().filter(|(i, _)| i % 3 == 0).map(|(_, x)| x).collect();
    }
    v
}

fn compare_point<PD: SWCurveConfig, PR: SWCurveConfig>(class: &str, case: &Value, d: ark_ec::short_weierstrass::Affine<PD>, r: ark_ec::short_weierstrass::Affine<PR>) -> Option<Viol> {
    type GDa<P> = ark_ec::short_weierstrass::Affine<P>;
    let _ = class;
    if !r.is_on_curve() {
        return Some(mkv("machinery: crafted point off the reference curve", case.clone(), "on curve".into(), "off curve".into()));
    }
    if !d.is_on_curve() {
        return Some(mkv("crafted point: is_on_curve", case.clone(), "on curve (as in the reference engine)".into(), "off curve".into()));
    }
    if d.is_in_correct_subgroup_assuming_on_curve() != r.is_in_correct_subgroup_assuming_on_curve() {
        return Some(mkv("crafted point: subgroup test", case.clone(), format!("{}", r.is_in_correct_subgroup_assuming_on_curve()), format!("{}", d.is_in_correct_subgroup_assuming_on_curve())));
    }
    let (dc, rc, du, ru) = (ser_c(&d), ser_c(&r), ser_u(&d), ser_u(&r));
    if dc != rc {
        return Some(mkv("crafted point: compressed bytes", case.clone(), hex::encode(&rc), hex::encode(&dc)));
    }
    if du != ru {
        return Some(mkv("crafted point: uncompressed bytes", case.clone(), hex::encode(&ru), hex::encode(&du)));
    }
    // unchecked and checked deserialisation of the reference bytes in both engines
    let a = GDa::<PD>::deserialize_compressed_unchecked(&rc[..]).ok().map(|x| ser_u(&x));
    let b = GDa::<PR>::deserialize_compressed_unchecked(&rc[..]).ok().map(|x| ser_u(&x));
    if a != b || b.as_ref() != Some(&ru) {
        return Some(mkv("crafted point: deserialize_compressed_unchecked", case.clone(), format!("{:?}", b.map(hex::encode)), format!("{:?}", a.map(hex::encode))));
    }
    let a = GDa::<PD>::deserialize_uncompressed_unchecked(&ru[..]).ok().map(|x| ser_c(&x));
    let b = GDa::<PR>::deserialize_uncompressed_unchecked(&ru[..]).ok().map(|x| ser_c(&x));
    if a != b {
        return Some(mkv("crafted point: deserialize_uncompressed_unchecked", case.clone(), format!("{:?}", b.map(hex::encode)), format!("{:?}", a.map(hex::encode))));
    }
    let a = GDa::<PD>::deserialize_uncompressed(&ru[..]).ok().map(|x| ser_c(&x));
    let b = GDa::<PR>::deserialize_uncompressed(&ru[..]).ok().map(|x| ser_c(&x));
    if a != b {
        return Some(mkv("crafted point: deserialize_uncompressed (validated)", case.clone(), format!("accepts: {}", b.is_some()), format!("accepts: {}", a.is_some())));
    }
    let a = GDa::<PD>::deserialize_compressed(&rc[..]).ok().map(|x| ser_u(&x));
    let b = GDa::<PR>::deserialize_compressed(&rc[..]).ok().map(|x| ser_u(&x));
    if a != b {
        return Some(mkv("crafted point: deserialize_compressed (validated)", case.clone(), format!("accepts: {}", b.is_some()), format!("accepts: {}", a.is_some())));
    }
    None
}

/// group = 1: y in Fp; group = 2: y = (c0, c1) with c1 = yv and c0 = c0v
pub fn eval_crafted(group: u8, yv: &BigUint, c0v: &BigUint) -> Outcome {
    let p = big(refmodel::spec::P_HEX);
    let case = json!({"kind": "crafted", "group": group, "y": yv.to_string(), "c0": c0v.to_string()});
    let half = (&p - 1u32) >> 1;
    let rel = if *yv == half || *yv == &half + 1u32 { "at-half" } else if (yv >> 320) == (&half >> 320) || (yv >> 320) == ((&p - yv) >> 320) { "top-limb-tie" } else { "plain" };
    if group == 1 {
        let yr: RF1 = fp_of(yv);
        let b = <<R as Pairing>::G1Affine as AffineRepr>::Config::COEFF_B;
        let roots = cube_roots(&(yr.square() - b), &(&p - 1u32));
        if roots.is_empty() {
            return Outcome::ok(format!("crafted/g1/{rel}/no-point"));
        }
        for x in roots {
            let xd: DF1 = fp_of(&BigUint::from_bytes_le(&x.into_bigint().to_bytes_le()));
            let yd: DF1 = fp_of(yv);
            for neg in [false, true] {
                let (r, d) = if neg { (<R as Pairing>::G1Affine::new_unchecked(x, -yr), <D as Pairing>::G1Affine::new_unchecked(xd, -yd)) } else { (<R as Pairing>::G1Affine::new_unchecked(x, yr), <D as Pairing>::G1Affine::new_unchecked(xd, yd)) };
                if let Some(v) = compare_point("g1", &case, d, r) {
                    return Outcome::bad(format!("crafted/g1/{rel}"), v);
                }
            }
        }
        Outcome::ok(format!("crafted/g1/{rel}/point"))
    } else {
        let yr = RF2::from_base_prime_field_elems(&[fp_of::<RF1>(c0v), fp_of::<RF1>(yv)]).unwrap();
        let b = <<R as Pairing>::G2Affine as AffineRepr>::Config::COEFF_B;
        let roots = cube_roots(&(yr.square() - b), &(&p * &p - 1u32));
        if roots.is_empty() {
            return Outcome::ok(format!("crafted/g2/{rel}/no-point"));
        }
        for x in roots {
            let xs: Vec<RF1> = x.to_base_prime_field_elements().collect();
            let xd = DF2::from_base_prime_field_elems(&[fp_of::<DF1>(&BigUint::from_bytes_le(&xs[0].into_bigint().to_bytes_le())), fp_of::<DF1>(&BigUint::from_bytes_le(&xs[1].into_bigint().to_bytes_le()))]).unwrap();
            let yd = DF2::from_base_prime_field_elems(&[fp_of::<DF1>(c0v), fp_of::<DF1>(yv)]).unwrap();
            for neg in [false, true] {
                let (r, d) = if neg { (<R as Pairing>::G2Affine::new_unchecked(x, -yr), <D as Pairing>::G2Affine::new_unchecked(xd, -yd)) } else { (<R as Pairing>::G2Affine::new_unchecked(x, yr), <D as Pairing>::G2Affine::new_unchecked(xd, yd)) };
                if let Some(v) = compare_point("g2", &case, d, r) {
                    return Outcome::bad(format!("crafted/g2/{rel}"), v);
                }
            }
        }
        Outcome::ok(format!("crafted/g2/{rel}/point"))
    }
}

pub fn run(ctx: &Arc<Ctx>) {
    let sc = scalars(ctx.quick());
    // generators and curve parameters
    let g1d = <D as Pairing>::G1Affine::generator();
    let g1r = <R as Pairing>::G1Affine::generator();
    let g2d = <D as Pairing>::G2Affine::generator();
    let g2r = <R as Pairing>::G2Affine::generator();
    ctx.report.evaluations.fetch_add(1, std::sync::atomic::Ordering::Relaxed);
    if ser_u(&g1d) != ser_u(&g1r) || ser_u(&g2d) != ser_u(&g2r) {
        ctx.violation(mkv("generators", json!({"kind": "generators"}), "byte-equal generators".into(), "differ".into()));
    }
    run_cases(ctx, "E3/C16-points", false, sc.par_iter(), |(n, k)| eval_points(n, k), |(n, k)| ("points".into(), json!({"kind": "points", "scalar": n, "k": k.to_string()})));
    let base = D::pairing(g1d, g2d);
    if base.is_zero() || ser_u(&base) != ser_u(&R::pairing(g1r, g2r)) {
        ctx.violation(mkv("e(G1,G2)", json!({"kind": "pairing", "a": "1", "b": "1", "ka": "1", "kb": "1"}), "non-degenerate and equal to the reference".into(), "degenerate or different".into()));
    }
    let n = sc.len();
    run_cases(
        ctx, "E3/C16-pairing", false,
        (0..n * n).into_par_iter().map(|i| (i / n, i % n)),
        |&(i, j)| eval_pairing(&sc[i].0, &sc[i].1, &sc[j].0, &sc[j].1, &base),
        |&(i, j)| ("pairing".into(), json!({"kind": "pairing", "a": sc[i].0, "b": sc[j].0, "ka": sc[i].1.to_string(), "kb": sc[j].1.to_string()})),
    );
    // crafted points (see above): G1 with y, G2 with y.c1, in the boundary classes; G2's y.c0 from
    // {0, 1, a fixed dense value}
    let ys = crafted_ys(ctx.quick());
    let pm = big(refmodel::spec::P_HEX);
    let c0s: Vec<BigUint> = vec![u(0), u(1), BigUint::from_bytes_le(&[0x5au8; 47]) % &pm];
    let ny = ys.len();
    run_cases(
        ctx, "E3/C16-crafted-points", false,
        (0..ny * 4).into_par_iter().map(|i| (i / 4, i % 4)),
        |&(yi, j)| if j == 0 { eval_crafted(1, &ys[yi], &u(0)) } else { eval_crafted(2, &ys[yi], &c0s[j - 1]) },
        |&(yi, j)| ("crafted".into(), json!({"kind": "crafted", "group": if j == 0 { 1 } else { 2 }, "y": ys[yi].to_string(), "c0": if j == 0 { "0".to_string() } else { c0s[j - 1].to_string() }})),
    );
    ctx.report.set("C16_crafted_y_values", json!(ny));
    let nt = ctx.t(20usize, 60);
    run_cases(ctx, "E3/C16-tower", false, (0..nt).into_par_iter(), |&i| eval_tower(i), |&i| ("tower".into(), json!({"kind": "tower", "element": i})));
    ctx.report.rule(format!("E3/C16[ark]: {} structured scalars: k*G1, k*G2 (mul_bigint and Mul<ScalarField>) compressed/uncompressed byte-equal with ark_bls12_377 and cross-deserialised both ways; all {}^2 pairings e(aG1,bG2) byte-equal, bilinear against e(G1,G2)^(ab), multi_pairing / miller_loop+final_exponentiation consistent, identity iff ab = 0; {ny} boundary-class y values: curve points solved for in G1 (y) and G2 (y.c1, three y.c0) and their negations, compressed/uncompressed bytes, on-curve/subgroup verdicts and unchecked/validated deserialisation equal in both engines; {} Fp12 elements (12 basis + dense): mul/square/add/inverse/pow and frobenius_map(0..11) byte-equal with the reference tower", n, n, nt));
    ctx.report.assume("C16: the ark-bls12-377 crate is the reference engine");
}

pub fn replay(case: &Value) -> (bool, Value) {
    let p = |v: &Value| v.as_str().unwrap_or("0").parse::<BigUint>().unwrap_or_default();
    let o = match case["kind"].as_str().unwrap_or("") {
        "points" => eval_points(case["scalar"].as_str().unwrap_or(""), &p(&case["k"])),
        "pairing" => {
            let base = D::pairing(<D as Pairing>::G1Affine::generator(), <D as Pairing>::G2Affine::generator());
            eval_pairing(case["a"].as_str().unwrap_or(""), &p(&case["ka"]), case["b"].as_str().unwrap_or(""), &p(&case["kb"]), &base)
        }
        "tower" => eval_tower(case["element"].as_u64().unwrap_or(0) as usize),
        "crafted" => eval_crafted(case["group"].as_u64().unwrap_or(1) as u8, &p(&case["y"]), &p(&case["c0"])),
        _ => return (true, json!({"note": "generator comparison is replayed by ./check C16 quick"})),
    };
    match o.viol {
        Some(v) => (false, json!({"what": v.key, "expected": v.expected, "got": v.got})),
        None => (true, json!({"class": o.class})),
    }
}
