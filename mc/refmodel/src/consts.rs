//! C17 reference: every derived constant recomputed from the modulus alone. The prime
//! factorisations of p-1 are hard-coded only as CLAIMS; `FieldFacts::new` re-verifies them at
//! every run (each factor passes Miller-Rabin, the product is re-multiplied).
use crate::fld::{big, is_probable_prime, u, Fld};
use num_bigint::BigUint;
use num_traits::{One, Zero};

pub struct FieldFacts {
    pub name: &'static str,
    pub f: Fld,
    pub nbytes: usize,
    pub bits: u64,
    pub half: BigUint,
    pub two_adicity: u32,
    pub trace: BigUint,
    pub half_trace: BigUint,
    /// distinct prime factors of p-1
    pub prime_factors: Vec<BigUint>,
    /// 2^(8*nbytes) mod p
    pub size_power_of_two: BigUint,
    /// the conventional generator documented in utils/field_properties.py
    pub conventional_generator: BigUint,
    pub factorisation_verified: bool,
}

impl FieldFacts {
    pub fn new(name: &'static str, p: BigUint, nbytes: usize, factors: &[(&str, u32)], conv_gen: u64) -> Self {
        let f = Fld::new(p.clone());
        let one = BigUint::one();
        let mut prod = one.clone();
        let mut ok = true;
        let mut primes = vec![];
        for (s, e) in factors {
            let q = big(s);
            ok &= is_probable_prime(&q);
            for _ in 0..*e {
                prod *= &q;
            }
            primes.push(q);
        }
        ok &= prod == &p - &one;
        ok &= is_probable_prime(&p);
        FieldFacts {
            name,
            nbytes,
            bits: p.bits(),
            half: (&p - &one) >> 1,
            two_adicity: f.s,
            trace: f.t.clone(),
            half_trace: (&f.t - &one) >> 1,
            prime_factors: primes,
            size_power_of_two: (&one << (8 * nbytes)) % &p,
            conventional_generator: u(conv_gen),
            factorisation_verified: ok,
            f,
        }
    }
    pub fn fq() -> Self {
        Self::new(
            "Fq",
            big(crate::spec::Q_DEC),
            32,
            &[("2", 47), ("3", 1), ("5", 1), ("7", 1), ("13", 1), ("499", 1), ("958612291309063373", 1), ("9586122913090633729", 2)],
            22,
        )
    }
    pub fn fr() -> Self {
        Self::new(
            "Fr",
            big(crate::spec::R_DEC),
            32,
            &[("2", 1), ("1553", 1), ("1282495723", 1), ("4153589585267", 1), ("127594226306900005382664386181896662579473947460767", 1)],
            5,
        )
    }
    pub fn fp() -> Self {
        Self::new(
            "Fp",
            big(crate::spec::P_HEX),
            48,
            &[
                ("2", 46), ("3", 1), ("7", 1), ("13", 1), ("53", 1), ("409", 1), ("499", 1), ("2557", 1), ("6633514200929891813", 1),
                ("73387170334035996766247648424745786170238574695861388454532790956181", 1),
            ],
            15,
        )
    }
    /// g generates F_p^* (complete decision from the certified factorisation)
    pub fn is_generator(&self, g: &BigUint) -> bool {
        let f = &self.f;
        if (g % &f.p).is_zero() {
            return false;
        }
        let pm1 = &f.p - 1u32;
        self.prime_factors.iter().all(|q| !f.pow(g, &(&pm1 / q)).is_one())
    }
    /// x has multiplicative order exactly 2^s
    pub fn has_order_two_pow_s(&self, x: &BigUint) -> bool {
        let f = &self.f;
        let e = BigUint::one() << (self.two_adicity - 1);
        let h = f.pow(x, &e);
        h == &f.p - 1u32
    }
}

/// BLS12 family: cofactor of G1 as polynomial in the curve parameter x: h1 = (x-1)^2 / 3
pub fn bls12_h1(x: &BigUint) -> BigUint {
    let xm1 = x - 1u32;
    (&xm1 * &xm1) / 3u32
}
/// BLS12 family: r(x) = x^4 - x^2 + 1
pub fn bls12_r(x: &BigUint) -> BigUint {
    let x2 = x * x;
    &x2 * &x2 - &x2 + 1u32
}
/// BLS12 family: p(x) = (x-1)^2 * r(x) / 3 + x
pub fn bls12_p(x: &BigUint) -> BigUint {
    let xm1 = x - 1u32;
    (&xm1 * &xm1 * bls12_r(x)) / 3u32 + x
}
/// BLS12 family: cofactor of G2, h2 = (x^8 - 4x^7 + 5x^6 - 4x^4 + 6x^3 - 4x^2 - 4x + 13) / 9
pub fn bls12_h2(x: &BigUint) -> BigUint {
    let p = |e: u32| x.pow(e);
    let pos = p(8) + u(5) * p(6) + u(6) * p(3) + u(13);
    let neg = u(4) * p(7) + u(4) * p(4) + u(4) * p(2) + u(4) * x;
    (pos - neg) / 9u32
}
