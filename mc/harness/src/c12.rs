//! C12 -- the arkworks and the minimal backend are observationally identical.
//! Both binaries walk the SAME exhaustively enumerated operation streams (only operations both
//! builds offer) and emit a transcript: records (op, input bytes, output bytes) hashed in chunks
//! of 4096. The driver (`/verif/check`) compares the chunk lists of the two builds; on a
//! mismatch it asks both binaries to dump that chunk in clear and reports the first differing
//! record.
use crate::c02;
use crate::c05;
use crate::c07;
use crate::c10;
use crate::core::*;
use crate::explorer::{build_model, build_model_ex, Act, Arg, Cat, Kind, Sel, St, Val, NONE, SELF};
use crate::fields::*;
use crate::sut::*;
use num_bigint::BigUint;
use rayon::prelude::*;
use refmodel::fld::{to32, to_le_n, u};
use refmodel::spec::Decaf;
use serde_json::{json, Value};
use sha2::{Digest, Sha256};
use std::collections::HashSet;
use std::sync::Arc;

pub const CHUNK: usize = 4096;

#[derive(Clone, Debug)]
pub struct Rec {
    pub op: String,
    pub input: Vec<u8>,
    pub output: Vec<u8>,
}

pub struct Transcript {
    pub stream: String,
    pub chunks: Vec<String>,
    pub n: usize,
    h: Sha256,
    in_chunk: usize,
    /// dump mode: keep the records of this chunk
    pub want_chunk: Option<usize>,
    pub kept: Vec<Rec>,
}
impl Transcript {
    pub fn new(stream: &str, want_chunk: Option<usize>) -> Self {
        Transcript { stream: stream.to_string(), chunks: vec![], n: 0, h: Sha256::new(), in_chunk: 0, want_chunk, kept: vec![] }
    }
    pub fn push(&mut self, r: Rec) {
        self.h.update((r.op.len() as u32).to_le_bytes());
        self.h.update(r.op.as_bytes());
        self.h.update((r.input.len() as u32).to_le_bytes());
        self.h.update(&r.input);
        self.h.update((r.output.len() as u32).to_le_bytes());
        self.h.update(&r.output);
        if self.want_chunk == Some(self.chunks.len()) {
            self.kept.push(r);
        }
        self.n += 1;
        self.in_chunk += 1;
        if self.in_chunk == CHUNK {
            self.flush();
        }
    }
    pub fn flush(&mut self) {
        if self.in_chunk > 0 {
            let h = std::mem::replace(&mut self.h, Sha256::new());
            self.chunks.push(hex::encode(&h.finalize()[..16]));
            self.in_chunk = 0;
        }
    }
    /// compute records in parallel (order preserved), feed sequentially
    pub fn emit_par<I: Sync, F: Fn(&I) -> Rec + Sync>(&mut self, items: &[I], f: F) {
        for block in items.chunks(1 << 16) {
            let recs: Vec<Rec> = block.par_iter().map(|i| guarded(|| f(i)).unwrap_or_else(|m| Rec { op: "panic".into(), input: vec![], output: m.into_bytes() })).collect();
            for r in recs {
                self.push(r);
            }
        }
    }
}

fn enc_of(e: &Element) -> Vec<u8> {
    e.vartime_compress().0.to_vec()
}
/// everything both builds let a caller observe about an element: encoding, field encoding and
/// the predicates (identity test, equality with the constants)
fn obs_of(e: &Element) -> Vec<u8> {
    let mut v = e.vartime_compress().0.to_vec();
    v.extend_from_slice(&e.vartime_compress_to_field().to_bytes_le());
    v.push(e.is_identity() as u8);
    v.push((*e == Element::IDENTITY) as u8);
    v.push((Element::IDENTITY == *e) as u8);
    v.push((*e == Element::GENERATOR) as u8);
    v.push((*e != Element::GENERATOR) as u8);
    v
}

pub const STREAMS: [&str; 6] = ["decode", "elligator", "group-programs", "scalar-mul", "field-arith", "field-encoding"];

fn stream_decode(t: &mut Transcript, quick: bool) {
    let dc = Decaf::new();
    let dom = c02::domain(&dc, quick);
    t.emit_par(&dom, |(b, _)| {
        use std::convert::TryFrom;
        let mut out = vec![];
        match Element::try_from(&b[..]) {
            Ok(e) => {
                out.push(1);
                // observables only: which representative (coset member, projective scaling) a
                // build's decoder returns is not something the property speaks about
                out.extend_from_slice(&obs_of(&e));
            }
            Err(decaf377::EncodingError::InvalidEncoding) => out.push(2),
            Err(decaf377::EncodingError::InvalidSliceLength) => out.push(3),
        }
        if b.len() == 32 {
            let mut a = [0u8; 32];
            a.copy_from_slice(b);
            out.push(Encoding(a).vartime_decompress().is_ok() as u8);
            out.push(Element::try_from(a).is_ok() as u8);
            out.push(Element::try_from(Encoding(a)).is_ok() as u8);
            out.push(Element::try_from(&Encoding(a)).is_ok() as u8);
        }
        out.push(Encoding::try_from(&b[..]).is_ok() as u8);
        Rec { op: "decode".into(), input: b.clone(), output: out }
    });
}

fn stream_elligator(t: &mut Transcript, quick: bool) {
    let dc = Decaf::new();
    let dom = c07::domain(&dc, quick);
    t.emit_par(&dom, |r0| {
        let e = Element::encode_to_curve(&fq(r0));
        Rec { op: "encode_to_curve".into(), input: to32(r0).to_vec(), output: obs_of(&e) }
    });
    let k: u64 = if quick { 48 } else { 128 };
    let pairs: Vec<(u64, u64)> = (0..k * k).map(|i| (i / k, i % k)).collect();
    t.emit_par(&pairs, |&(a, b)| {
        let e = Element::hash_to_curve(&fq(&u(a)), &fq(&u(b)));
        Rec { op: "hash_to_curve".into(), input: [to32(&u(a)), to32(&u(b))].concat(), output: enc_of(&e) }
    });
}

/// operator forms both builds offer (by the explorer's form names); the two minimal ladders and
/// arkworks' mul_bigint are one shared operation "k*P from limbs"
fn shared_forms(gm: &crate::explorer::GM) -> Vec<(usize, String)> {
    let shared = [
        "E:&s+&o", "E:s+&o", "E:&s+o", "E:s+o", "E:s+=&o", "E:s+=o", "E:&o+&s", "E:&s-&o", "E:s-&o", "E:&s-o", "E:s-o", "E:s-=&o", "E:s-=o", "E:&o-&s", "E:o-=s", "E:-s", "E:double",
        "E:&s*&k", "E:&k*&s", "E:s*&k", "E:&s*k", "E:s*k", "E:k*&s", "E:&k*s", "E:k*s", "E:s*=&k", "E:s*=k",
    ];
    let mut v: Vec<(usize, String)> = vec![];
    for name in shared {
        if let Some(i) = gm.forms.iter().position(|f| f.name == name) {
            v.push((i, name.to_string()));
        }
    }
    // one limb-driven form per build (arkworks: mul_bigint; minimal: the constant-time ladder;
    // the variable-time ladder is compared with the same model inside C05)
    if let Some((i, _)) = gm.forms.iter().enumerate().find(|(_, f)| f.on == Kind::E && f.arg == Arg::ScalarLimbs) {
        v.push((i, "E:k*P(limbs)".to_string()));
    }
    v
}

fn stream_group(t: &mut Transcript, quick: bool) {
    let depth = if quick { 2 } else { 3 };
    let gm = build_model(Sel::C04, 255);
    let forms = shared_forms(&gm);
    // seeds both builds construct identically (from reference coordinates / constants)
    let seed_names = ["Element::IDENTITY", "Element::GENERATOR", "T2=(0,-1) [H1]", "-G [H1]", "G+T2=(-x,-y) [H1]", "G(Z=2) [H1]", "identity(Z=-1) [H1]", "2G(Z=3) [H1]", "H-G(Z=-1) [H1]", "encode_to_curve(1)", "decode(8)"];
    let mut frontier: Vec<St> = vec![];
    let mut seen: HashSet<Vec<u8>> = HashSet::new();
    for n in seed_names {
        if let Some(sd) = gm.seeds.iter().find(|s| s.name == n) {
            let st = St { depth: 0, kind: Kind::E, c: sd.val.coords(), m: sd.m, bad: 0 };
            // every seed is a state of its own (different representatives of one class matter)
            frontier.push(st);
        }
    }
    for st in &frontier {
        seen.insert(enc_of(&el_from_coords(&st.c)));
    }
    for _d in 0..depth {
        // all (state, form, operand) in deterministic order
        let mut work: Vec<(usize, usize, u16)> = vec![];
        for (si, _) in frontier.iter().enumerate() {
            for (fi, (form_idx, _)) in forms.iter().enumerate() {
                let f = &gm.forms[*form_idx];
                match f.arg {
                    Arg::None => work.push((si, fi, NONE)),
                    Arg::Op1 => {
                        for o in 0..gm.pool.len() as u16 {
                            work.push((si, fi, o));
                        }
                        work.push((si, fi, SELF));
                    }
                    Arg::ScalarFr | Arg::ScalarLimbs => {
                        for (ki, k) in gm.scalars.iter().enumerate() {
                            if f.arg == Arg::ScalarFr && !k.fr_ok {
                                continue;
                            }
                            work.push((si, fi, ki as u16));
                        }
                    }
                    Arg::Op2 => {}
                }
            }
        }
        let results: Vec<(Rec, Option<St>)> = work
            .par_iter()
            .map(|&(si, fi, a)| {
                let s = &frontier[si];
                let s0 = St { depth: 0, ..s.clone() };
                let ns = gm.step(&s0, Act { form: forms[fi].0 as u16, a, b: NONE });
                let out = if ns.kind == Kind::E && ns.c != [[0xEE; 32]; 4] { obs_of(&el_from_coords(&ns.c)) } else { vec![0xEE] };
                let operand = if a == SELF { "self".to_string() } else if a == NONE { String::new() } else if matches!(gm.forms[forms[fi].0].arg, Arg::Op1) { gm.pool[a as usize].name.clone() } else { gm.scalars[a as usize].name.clone() };
                let mut input = enc_of(&el_from_coords(&s.c));
                input.extend_from_slice(operand.as_bytes());
                (Rec { op: forms[fi].1.clone(), input, output: out }, Some(ns))
            })
            .collect();
        let mut next = vec![];
        for (rec, ns) in results {
            let new = rec.output.len() > 32 && seen.insert(rec.output[..32].to_vec());
            t.push(rec);
            if new {
                if let Some(ns) = ns {
                    next.push(ns);
                }
            }
        }
        frontier = next;
    }
}

fn stream_scalar(t: &mut Transcript, quick: bool) {
    let base = build_model(Sel::C05, 1);
    let ks = c05::scalar_set(&base.gm.dc.r, quick);
    let gm = build_model_ex(Sel::C05, 1, Some(ks));
    let forms = shared_forms(&gm);
    let seed_names = ["Element::GENERATOR", "G+T2=(-x,-y) [H1]", "2G(Z=3) [H1]", "H-G(Z=-1) [H1]", "T2=(0,-1) [H1]", "identity(Z=-1) [H1]"];
    let mut work: Vec<(usize, usize, usize)> = vec![];
    let seeds: Vec<St> = seed_names.iter().filter_map(|n| gm.seeds.iter().find(|s| s.name == *n)).map(|sd| St { depth: 0, kind: Kind::E, c: sd.val.coords(), m: sd.m, bad: 0 }).collect();
    for si in 0..seeds.len() {
        for (fi, (form_idx, _)) in forms.iter().enumerate() {
            let f = &gm.forms[*form_idx];
            if f.cat != Cat::Mul {
                continue;
            }
            for (ki, k) in gm.scalars.iter().enumerate() {
                if f.arg == Arg::ScalarFr && !k.fr_ok {
                    continue;
                }
                work.push((si, fi, ki));
            }
        }
    }
    t.emit_par(&work, |&(si, fi, ki)| {
        let ns = gm.step(&seeds[si], Act { form: forms[fi].0 as u16, a: ki as u16, b: NONE });
        let out = if ns.c != [[0xEE; 32]; 4] { obs_of(&el_from_coords(&ns.c)) } else { vec![0xEE] };
        let mut input = enc_of(&el_from_coords(&seeds[si].c));
        for l in &gm.scalars[ki].limbs {
            input.extend_from_slice(&l.to_le_bytes());
        }
        Rec { op: forms[fi].1.clone(), input, output: out }
    });
    let _ = Val::E(Element::IDENTITY);
}

fn field_arith<F: FS>(t: &mut Transcript, quick: bool) {
    let p = F::modulus();
    let n = F::NBYTES;
    let small = s_small(&p, n, !quick);
    let sf: Vec<F> = small.iter().map(F::of).collect();
    let bforms = bin_forms::<F>();
    let uforms = un_forms::<F>();
    let ns = small.len();
    let work: Vec<(usize, usize, usize)> = (0..bforms.len() * ns * ns).map(|i| (i / (ns * ns), (i / ns) % ns, i % ns)).collect();
    t.emit_par(&work, |&(fi, a, b)| {
        let out = if bforms[fi].op == '/' && small[b] == BigUint::from(0u8) { vec![0xDD] } else { (bforms[fi].f)(sf[a], sf[b]).to_le() };
        Rec { op: format!("{}:{}", F::NAME, bforms[fi].name), input: [to_le_n(&small[a], n), to_le_n(&small[b], n)].concat(), output: out }
    });
    let limb = s_limb(&p, n, &[0, 0xFFFF_FFFF]);
    let lf: Vec<F> = limb.iter().map(F::of).collect();
    let work: Vec<(usize, usize)> = (0..uforms.len() * limb.len()).map(|i| (i / limb.len(), i % limb.len())).collect();
    t.emit_par(&work, |&(fi, a)| Rec { op: format!("{}:{}", F::NAME, uforms[fi].name), input: to_le_n(&limb[a], n), output: (uforms[fi].f)(lf[a]).map(|x| x.to_le()).unwrap_or(vec![0xDD]) });
    // limb patterns x a few partners through one form per operation
    let partners = [0usize, 1, ns / 2, ns - 1];
    let work: Vec<(usize, usize, usize)> = (0..4 * limb.len() * partners.len()).map(|i| ([0usize, 7, 14, 21][i % 4], (i / 4) % limb.len(), partners[i / 4 / limb.len()])).collect();
    t.emit_par(&work, |&(fi, a, b)| {
        let out = if bforms[fi].op == '/' && small[b] == BigUint::from(0u8) { vec![0xDD] } else { (bforms[fi].f)(lf[a], sf[b]).to_le() };
        Rec { op: format!("{}:{}", F::NAME, bforms[fi].name), input: [to_le_n(&limb[a], n), to_le_n(&small[b], n)].concat(), output: out }
    });
    // Montgomery-domain limb patterns (internal representation = structured limb pattern, in both
    // word sizes): all pairs through one form per operation, and every unary form
    let mp = mont_patterns(&p, n, 0);
    let mf: Vec<F> = mp.iter().map(F::of).collect();
    let nm = mp.len();
    let work: Vec<(usize, usize, usize)> = (0..4 * nm * nm).map(|i| ([0usize, 7, 14, 21][i % 4], (i / 4) / nm, (i / 4) % nm)).collect();
    t.emit_par(&work, |&(fi, a, b)| {
        let out = if bforms[fi].op == '/' && mp[b] == BigUint::from(0u8) { vec![0xDD] } else { (bforms[fi].f)(mf[a], mf[b]).to_le() };
        Rec { op: format!("{}:montgomery-pattern:{}", F::NAME, bforms[fi].name), input: [to_le_n(&mp[a], n), to_le_n(&mp[b], n)].concat(), output: out }
    });
    let work: Vec<(usize, usize)> = (0..uforms.len() * nm).map(|i| (i / nm, i % nm)).collect();
    t.emit_par(&work, |&(fi, a)| Rec { op: format!("{}:montgomery-pattern:{}", F::NAME, uforms[fi].name), input: to_le_n(&mp[a], n), output: (uforms[fi].f)(mf[a]).map(|x| x.to_le()).unwrap_or(vec![0xDD]) });
    // comparison / borrow boundary classes and operands with long divstep trajectories (the
    // inversion loop of the 32-bit backend runs a fixed number of steps): every unary form
    {
        let lt = refmodel::divstep::long_trajectory_family(&p, if quick { 256 } else { 1024 }, 16);
        let fld = refmodel::fld::Fld::new(p.clone());
        let rr = BigUint::from(1u8) << (8 * n);
        let rinv = fld.inv(&(&rr % &p)).unwrap();
        let mut vals: Vec<BigUint> = lt.iter().flat_map(|(a, _)| vec![a.clone(), fld.mul(a, &rr), fld.mul(a, &rinv)]).collect();
        vals.extend(cmp_family(&p, n).into_iter().filter(|x| *x < p));
        vals.extend(neg_family(&p, n));
        let vf: Vec<F> = vals.iter().map(F::of).collect();
        let work: Vec<(usize, usize)> = (0..uforms.len() * vals.len()).map(|i| (i / vals.len(), i % vals.len())).collect();
        t.emit_par(&work, |&(fi, a)| Rec { op: format!("{}:boundary/long-trajectory:{}", F::NAME, uforms[fi].name), input: to_le_n(&vals[a], n), output: (uforms[fi].f)(vf[a]).map(|x| x.to_le()).unwrap_or(vec![0xDD]) });
    }
    // folds and From<uN>
    let lv: Vec<F> = [0usize, 1, 2, ns - 1, ns / 2, ns / 3].iter().map(|&i| sf[i]).collect();
    let mut lists: Vec<Vec<usize>> = vec![vec![]];
    for a in 0..lv.len() {
        lists.push(vec![a]);
        for b in 0..lv.len() {
            lists.push(vec![a, b]);
            for c in 0..lv.len() {
                lists.push(vec![a, b, c]);
            }
        }
    }
    let work: Vec<(usize, usize)> = (0..4 * lists.len()).map(|i| (i % 4, i / 4)).collect();
    t.emit_par(&work, |&(w, li)| {
        let l: Vec<F> = lists[li].iter().map(|&i| lv[i]).collect();
        let out = match w {
            0 => l.clone().into_iter().sum::<F>(),
            1 => l.iter().sum::<F>(),
            2 => l.clone().into_iter().product::<F>(),
            _ => l.iter().product::<F>(),
        };
        Rec { op: format!("{}:{}", F::NAME, c10::FOLDS[w]), input: lists[li].iter().map(|&i| i as u8).collect(), output: out.to_le() }
    });
    let uvals: Vec<u128> = (0..128).map(|k| 1u128 << k).chain([0u128, 255, 65535, u64::MAX as u128, u128::MAX]).collect();
    t.emit_par(&uvals, |&v| {
        let mut out = F::from(v).to_le();
        out.extend(F::from(v as u64).to_le());
        out.extend(F::from(v as u32).to_le());
        out.extend(F::from(v as u16).to_le());
        out.extend(F::from(v as u8).to_le());
        out.extend(F::from(v & 1 == 1).to_le());
        Rec { op: format!("{}:From<uN>", F::NAME), input: v.to_le_bytes().to_vec(), output: out }
    });
}

fn stream_field_arith(t: &mut Transcript, quick: bool) {
    use decaf377::{Fp, Fq, Fr};
    field_arith::<Fq>(t, quick);
    field_arith::<Fr>(t, quick);
    field_arith::<Fp>(t, quick);
    // Fq-only shared API
    use subtle::{Choice, ConditionallySelectable, ConstantTimeEq};
    let p = Fq::modulus();
    let small = s_small(&p, 32, false);
    let ns = small.len();
    let work: Vec<(usize, usize)> = (0..ns * ns).map(|i| (i / ns, i % ns)).collect();
    t.emit_par(&work, |&(a, b)| {
        let (fa, fb) = (Fq::of(&small[a]), Fq::of(&small[b]));
        let mut out = Fq::conditional_select(&fa, &fb, Choice::from(0)).to_le();
        out.extend(Fq::conditional_select(&fa, &fb, Choice::from(1)).to_le());
        out.push(fa.ct_eq(&fb).unwrap_u8());
        out.push((fa == fb) as u8);
        Rec { op: "Fq:select/ct_eq".into(), input: [to32(&small[a]), to32(&small[b])].concat(), output: out }
    });
    let mp = mont_patterns(&p, 32, 0);
    let nm = mp.len();
    let work: Vec<(usize, usize)> = (0..nm * nm).map(|i| (i / nm, i % nm)).collect();
    t.emit_par(&work, |&(a, b)| {
        let (fa, fb) = (Fq::of(&mp[a]), Fq::of(&mp[b]));
        let mut out = Fq::conditional_select(&fa, &fb, Choice::from(1)).to_le();
        out.push(fa.ct_eq(&fb).unwrap_u8());
        out.push((fa == fb) as u8);
        out.extend((fa - fb).to_le());
        out.extend((fa + fb).to_le());
        out.extend((fa * fb).to_le());
        Rec { op: "Fq:montgomery-patterns".into(), input: [to32(&mp[a]), to32(&mp[b])].concat(), output: out }
    });
    let exps = c10::exp_slices(&p);
    let bases = [u(0), u(1), u(2), &p - 1u32, u(3021)];
    let work: Vec<(usize, usize)> = (0..bases.len() * exps.len()).map(|i| (i % bases.len(), i / bases.len())).collect();
    t.emit_par(&work, |&(b, e)| Rec { op: "Fq:power".into(), input: to32(&bases[b]).to_vec(), output: Fq::of(&bases[b]).power(&exps[e]).to_le() });
    // sqrt-ratio (different algorithms in the two builds: table-driven vs Tonelli-Shanks)
    let vals: Vec<BigUint> = (0..64u64).map(u).chain((1..16u32).map(|i| &p - i)).collect();
    let work: Vec<(usize, usize)> = (0..vals.len() * vals.len()).map(|i| (i / vals.len(), i % vals.len())).collect();
    t.emit_par(&work, |&(a, b)| {
        let (f, y) = crate::c09::sqrt_ratio(&Fq::of(&vals[a]), &Fq::of(&vals[b]));
        // either root is legitimate: record the flag and y^2
        let mut out = vec![f as u8];
        out.extend((y * y).to_le());
        Rec { op: "Fq:sqrt_ratio_zeta".into(), input: [to32(&vals[a]), to32(&vals[b])].concat(), output: out }
    });
}

fn field_encoding<F: FS>(t: &mut Transcript, quick: bool) {
    let p = F::modulus();
    let n = F::NBYTES;
    let mut strings: Vec<Vec<u8>> = vec![];
    for len in 0..=200usize {
        for (_, b) in crate::c11::contents(&p, n, len) {
            strings.push(b);
        }
    }
    t.emit_par(&strings, |b| Rec { op: format!("{}:from_le_bytes_mod_order", F::NAME), input: b.clone(), output: F::from_le_mod(b).to_le() });
    let w = if quick { 1u32 << 8 } else { 1 << 10 };
    let lim = BigUint::from(1u8) << (8 * n);
    let mut near: Vec<BigUint> = vec![];
    for d in 0..w {
        near.push(&p - d);
        near.push(&p + d);
        near.push(BigUint::from(d));
        near.push(&lim - 1u32 - d);
    }
    t.emit_par(&near, |v| {
        let b = to_le_n(v, n);
        let mut out = vec![];
        match F::from_checked(&b) {
            Ok(x) => {
                out.push(1);
                out.extend(x.to_le());
                out.extend(x.to_bytes2());
                out.extend(format!("{x:?}").into_bytes());
            }
            Err(_) => out.push(0),
        }
        Rec { op: format!("{}:from_bytes_checked", F::NAME), input: b, output: out }
    });
    let small = s_small(&p, n, false);
    let sf: Vec<F> = small.iter().map(F::of).collect();
    let ns = small.len();
    let work: Vec<(usize, usize)> = (0..ns * ns).map(|i| (i / ns, i % ns)).collect();
    t.emit_par(&work, |&(a, b)| Rec { op: format!("{}:cmp", F::NAME), input: [to_le_n(&small[a], n), to_le_n(&small[b], n)].concat(), output: vec![sf[a].cmp(&sf[b]) as i8 as u8, (sf[a] == sf[b]) as u8, (h64(&sf[a]) == h64(&sf[b])) as u8] });
}

fn stream_field_encoding(t: &mut Transcript, quick: bool) {
    use decaf377::{Fp, Fq, Fr};
    field_encoding::<Fq>(t, quick);
    field_encoding::<Fr>(t, quick);
    field_encoding::<Fp>(t, quick);
}

pub fn gen_stream(name: &str, quick: bool, want_chunk: Option<usize>) -> Transcript {
    let mut t = Transcript::new(name, want_chunk);
    match name {
        "decode" => stream_decode(&mut t, quick),
        "elligator" => stream_elligator(&mut t, quick),
        "group-programs" => stream_group(&mut t, quick),
        "scalar-mul" => stream_scalar(&mut t, quick),
        "field-arith" => stream_field_arith(&mut t, quick),
        "field-encoding" => stream_field_encoding(&mut t, quick),
        _ => {}
    }
    t.flush();
    t
}

pub fn run(ctx: &Arc<Ctx>) {
    let mut streams = serde_json::Map::new();
    let mut total = 0usize;
    for s in STREAMS {
        let t = gen_stream(s, ctx.quick(), None);
        total += t.n;
        ctx.report.evaluations.fetch_add(t.n as u64, std::sync::atomic::Ordering::Relaxed);
        ctx.report.distinct_extra.fetch_add(t.n as u64, std::sync::atomic::Ordering::Relaxed);
        ctx.report.class(&format!("stream/{s}"));
        streams.insert(s.to_string(), json!({"records": t.n, "chunks": t.chunks}));
    }
    ctx.report.set("C12_transcript", Value::Object(streams));
    ctx.report.sample("E3/C12", || json!({"stream": "decode", "record": {"op": "decode", "input": "0800..00", "output": "verdict + coords + re-encoding"}}));
    ctx.report.rule(format!("E3/C12[{BUILD}]: {total} records over {} enumerated streams shared by both builds (C02 decode domain, C07 Elligator domain + hash_to_curve grid, all group programs of bounded depth over the shared operator forms deduplicated by encoding, C05 scalar grid, field arithmetic and field encoding domains of C10/C11 incl. Fq select/ct_eq/power/sqrt-ratio); transcripts compared chunk by chunk by the driver; distinct = records (inputs are enumerated without repetition per stream)", STREAMS.len()));
    ctx.report.assume("C12: only operations both builds offer are compared; for sqrt-ratio the flag and y^2 are compared because either root is a legitimate answer");
}

/// `mc-<build> c12dump <quick|thorough> <stream> <chunk>`: records of one chunk as JSON lines
pub fn dump(tier: &str, stream: &str, chunk: usize) {
    let t = gen_stream(stream, tier == "quick", Some(chunk));
    for (i, r) in t.kept.iter().enumerate() {
        println!("{}", json!({"index": chunk * CHUNK + i, "op": r.op, "input": hex::encode(&r.input), "output": hex::encode(&r.output)}));
    }
}
