//! C14 -- R1CS gadgets are sound against adversarial prover hints (fault enumeration).
//! The fault surface of one synthesis is its sequence of `isqrt` calls (hook H2); a fault is a
//! substitution of the honest hint (was_square, y) at one call (quick) or at two calls
//! simultaneously (thorough) by a member of H(den), a finite set that contains EVERY hint able to
//! satisfy the gadget's constraint block (which forces y^2 in {1/den', 0, zeta/den'}).
//! Oracle: satisfied  =>  native accepts and the gadget output equals the native result.
use crate::c13::Env;
use crate::core::*;
use crate::r1cs_util::*;
use crate::sut::*;
use ark_ff::{Field, One as _, Zero as _};
use ark_relations::r1cs::{ConstraintSystemRef, SynthesisError};
use decaf377::r1cs::fqvar_ext::verif_hint;
use num_bigint::BigUint;
use rayon::prelude::*;
use refmodel::curve::Pt;
use refmodel::fld::{to32, u};
use refmodel::spec::Decaf;
use serde_json::{json, Value};
use std::cell::RefCell;
use std::rc::Rc;
use std::sync::Arc;

type SR<T> = Result<T, SynthesisError>;

/// what a gadget run produced, read WITHOUT building curve points (hook H3)
#[derive(Clone, Debug, PartialEq)]
pub enum Out {
    Xy(Option<(Fq, Fq)>),
    F(Option<Fq>),
    FlagY(Option<(bool, Fq)>),
    None,
}

/// the native result a satisfied run must agree with; None = native rejects
#[derive(Clone, Debug)]
pub enum Native {
    Element(Option<Element>),
    F(Option<Fq>),
    FlagY(bool, Fq),
    /// statement of a whole circuit: true iff the (witness, public input) pair is in the relation
    Statement(bool),
    /// no native counterpart: whatever is returned must be a valid group element
    ValidOnly,
}

pub struct Target {
    pub name: String,
    pub input: String,
    pub run: Box<dyn Fn(&ConstraintSystemRef<Fq>) -> SR<Out> + Send + Sync>,
    pub native: Native,
}

fn xy_of(v: &ElementVar) -> Out {
    Out::Xy(v.verif_xy_values())
}

/// hint alphabet for a call with the given `den` (as seen by the honest run)
pub fn hint_set(dc: &Decaf, den: &Fq, honest: (bool, Fq)) -> Vec<(bool, Fq, String)> {
    let f = dc.f();
    let d = fq_big(den);
    let dprime = if d.is_zero() { BigUint::from(1u8) } else { d.clone() };
    let mut ys: Vec<(BigUint, String)> = vec![(u(0), "0".into()), (u(1), "1".into()), (f.neg(&u(1)), "-1".into()), (u(2), "2".into()), (u(3), "3".into())];
    let inv = f.inv(&dprime).unwrap();
    if let Some(r) = f.sqrt(&inv) {
        ys.push((r.clone(), "sqrt(1/den')".into()));
        ys.push((f.neg(&r), "-sqrt(1/den')".into()));
    }
    if let Some(r) = f.sqrt(&f.mul(&dc.zeta, &inv)) {
        ys.push((r.clone(), "sqrt(zeta/den')".into()));
        ys.push((f.neg(&r), "-sqrt(zeta/den')".into()));
    }
    let hy = fq_big(&honest.1);
    ys.push((hy.clone(), "honest y".into()));
    ys.push((f.neg(&hy), "-honest y".into()));
    ys.push((f.add(&hy, &u(1)), "honest y + 1".into()));
    let mut seen: Vec<(bool, BigUint)> = vec![];
    let mut out = vec![];
    for flag in [true, false] {
        for (y, n) in &ys {
            if seen.contains(&(flag, y.clone())) {
                continue;
            }
            seen.push((flag, y.clone()));
            if (flag, y) == (honest.0, &hy) {
                continue; // the honest hint itself is not a fault
            }
            out.push((flag, fq(y), format!("({flag}, {n})")));
        }
    }
    out
}

pub struct RunRes {
    pub synth: Synth,
    pub out: Out,
    pub calls: Vec<(Fq, bool, Fq)>,
}

/// run a target with hint substitutions `subs`: call index -> (flag, y)
pub fn run_with(t: &Target, subs: &[(usize, bool, Fq)]) -> RunRes {
    let rec: Rc<RefCell<Vec<(Fq, bool, Fq)>>> = Rc::new(RefCell::new(vec![]));
    let rec2 = rec.clone();
    let subs2: Vec<(usize, bool, Fq)> = subs.to_vec();
    verif_hint::set(Some(Box::new(move |idx, den, flag, y| {
        rec2.borrow_mut().push((*den, flag, *y));
        for (i, f, v) in &subs2 {
            if *i == idx {
                return (*f, *v);
            }
        }
        (flag, *y)
    })));
    let cs = new_cs(prove_mode());
    let r = guarded(|| (t.run)(&cs));
    verif_hint::set(None);
    let calls = rec.borrow().clone();
    match r {
        Ok(r) => {
            let synth = sat_of(&cs, &r);
            RunRes { synth, out: r.unwrap_or(Out::None), calls }
        }
        Err(m) => RunRes { synth: Synth::Err(format!("panic: {m}")), out: Out::None, calls },
    }
}

/// does a satisfied run's output agree with the native result?
pub fn agrees(dc: &Decaf, native: &Native, out: &Out) -> Result<(), String> {
    let f = dc.f();
    match (native, out) {
        (Native::Element(None), _) => Err("native operation rejects this input".into()),
        (Native::F(None), _) => Err("native operation rejects this input".into()),
        (Native::Statement(false), _) => Err("the statement (witness, public input) is false".into()),
        (Native::Statement(true), _) => Ok(()),
        (Native::ValidOnly, Out::Xy(Some((x, y)))) => {
            let p = Pt { x: fq_big(x), y: fq_big(y) };
            if dc.valid(&p) {
                Ok(())
            } else {
                Err(format!("returned variable ({}, {}) is not a valid group element", p.x, p.y))
            }
        }
        (Native::Element(Some(e)), Out::Xy(Some((x, y)))) => {
            // the returned variable must be a valid representative of the same element
            let p = Pt { x: fq_big(x), y: fq_big(y) };
            let cb = coords_big(&el_coords(e));
            let zi = f.inv(&cb[2]).unwrap();
            let want = Pt { x: f.mul(&cb[0], &zi), y: f.mul(&cb[1], &zi) };
            if !dc.c.on_curve(&p) {
                return Err(format!("output ({}, {}) is not on the curve", p.x, p.y));
            }
            if !dc.c.same_class(&p, &want) {
                return Err(format!("output ({}, {}) is not the native element", p.x, p.y));
            }
            Ok(())
        }
        (Native::F(Some(n)), Out::F(Some(g))) => {
            if n == g {
                Ok(())
            } else {
                Err(format!("output {} != native {}", fq_big(g), fq_big(n)))
            }
        }
        (Native::FlagY(nf, ny), Out::FlagY(Some((gf, gy)))) => {
            // either square root is a legitimate answer of the four-case contract
            if nf == gf && (gy == ny || *gy == -*ny) {
                Ok(())
            } else {
                Err(format!("output ({gf}, {}) but native ({nf}, +-{})", fq_big(gy), fq_big(ny)))
            }
        }
        (n, o) => Err(format!("output {o:?} cannot be compared with native {n:?}")),
    }
}

pub fn targets(env: &Env) -> Vec<Target> {
    let dc = &env.dc;
    let mut ts: Vec<Target> = vec![];
    // isqrt alone
    let mut xs: Vec<(String, BigUint)> = env.fqs.clone();
    xs.push(("enc(G)".into(), u(8)));
    for (n, x) in xs {
        let fx = fq(&x);
        let (nf, ny) = Fq::sqrt_ratio_zeta(&Fq::ONE, &fx);
        ts.push(Target {
            name: "isqrt".into(),
            input: format!("x={n}"),
            run: Box::new(move |cs| {
                let v = FqVar::new_witness(cs.clone(), || Ok(fx))?;
                let (f, y) = v.isqrt()?;
                Ok(Out::FlagY(match (f.value(), y.value()) { (Ok(a), Ok(b)) => Some((a, b)), _ => None }))
            }),
            native: Native::FlagY(nf, ny),
        });
    }
    // decode (valid and invalid encodings)
    for (n, s, _) in &env.encs {
        let fs = fq(s);
        let native = Encoding(to32(s)).vartime_decompress().ok();
        ts.push(Target {
            name: "decompress_from_field".into(),
            input: format!("s={n}"),
            run: Box::new(move |cs| {
                let v = FqVar::new_witness(cs.clone(), || Ok(fs))?;
                Ok(xy_of(&ElementVar::decompress_from_field(v)?))
            }),
            native: Native::Element(native),
        });
    }
    // lazily decoded public input, forced
    for (n, s, _) in env.encs.iter().filter(|e| !e.2).filter(|e| e.0 == "q-1").chain(env.encs.iter().filter(|e| !e.2).filter(|e| e.0 != "q-1").take(8)) {
        let fs = fq(s);
        ts.push(Target {
            name: "new_input(Fq) then element()".into(),
            input: format!("s={n}"),
            run: Box::new(move |cs| {
                let v = <ElementVar as AllocVar<Fq, Fq>>::new_input(cs.clone(), || Ok(fs))?;
                let _ = v.negate()?;
                Ok(xy_of(&v))
            }),
            native: Native::Element(None),
        });
    }
    // encode: witness allocation (decode inside) then compress
    for (n, e) in env.els.iter() {
        let e = *e;
        ts.push(Target {
            name: "new_witness(Element) then compress_to_field".into(),
            input: n.clone(),
            run: Box::new(move |cs| {
                let v = <ElementVar as AllocVar<Element, Fq>>::new_witness(cs.clone(), || Ok(e))?;
                Ok(Out::F(v.compress_to_field()?.value().ok()))
            }),
            native: Native::F(Some(e.vartime_compress_to_field())),
        });
        ts.push(Target {
            name: "new_witness(Element)".into(),
            input: n.clone(),
            run: Box::new(move |cs| Ok(xy_of(&<ElementVar as AllocVar<Element, Fq>>::new_witness(cs.clone(), || Ok(e))?))),
            native: Native::Element(Some(e)),
        });
    }
    // Elligator
    for (n, x) in &env.fqs {
        let fx = fq(x);
        ts.push(Target {
            name: "encode_to_curve".into(),
            input: format!("r0={n}"),
            run: Box::new(move |cs| {
                let v = FqVar::new_witness(cs.clone(), || Ok(fx))?;
                Ok(xy_of(&ElementVar::encode_to_curve(&v)?))
            }),
            native: Native::Element(Some(Element::encode_to_curve(&fx))),
        });
    }
    // witnessed coordinates that are NOT a valid representative (hook H1): the returned
    // variable must still be a valid element whenever the system is satisfied
    {
        let f = dc.f();
        let g = dc.generator();
        let i = f.sqrt(&f.neg(&u(1))).unwrap();
        let bad: Vec<(&str, BigUint, BigUint)> = vec![
            ("(0,0)", u(0), u(0)),
            ("(1,1) off-curve", u(1), u(1)),
            ("(gx, gy+1) off-curve", g.x.clone(), f.add(&g.y, &u(1))),
            ("order-4 point (i,0)", i.clone(), u(0)),
            ("order-4 point (-i,0)", f.neg(&i), u(0)),
        ];
        type AffinePoint = <Element as ark_ec::CurveGroup>::Affine;
        for (n, x, y) in bad {
            let e = el_from_big(&x, &y, &u(1), &f.mul(&x, &y));
            // the same coordinates offered through the AffinePoint allocation form
            let ap = AffinePoint::verif_from_coords_unchecked(fq(&x), fq(&y));
            ts.push(Target {
                name: "new_witness(AffinePoint) with invalid coordinates".into(),
                input: n.to_string(),
                run: Box::new(move |cs| Ok(xy_of(&<ElementVar as AllocVar<AffinePoint, Fq>>::new_witness(cs.clone(), || Ok(ap))?))),
                native: Native::ValidOnly,
            });
            // also a point of E \ 2E: G' = G + (i,0)
            ts.push(Target {
                name: "new_witness(Element) with invalid coordinates".into(),
                input: n.to_string(),
                run: Box::new(move |cs| Ok(xy_of(&<ElementVar as AllocVar<Element, Fq>>::new_witness(cs.clone(), || Ok(e))?))),
                native: Native::ValidOnly,
            });
        }
        let o4 = Pt { x: i, y: u(0) };
        let outside = dc.c.add(&g, &o4);
        let e = el_from_pt(&outside, f);
        // points of E outside 2E (on the curve, so only the group-membership part of the witness
        // check can reject them), through the AffinePoint form: G + T4, H + T4, 2G + T4'
        {
            let h = dc.elligator_spec(&u(1));
            let o4b = Pt { x: f.neg(&o4.x), y: u(0) };
            for (n, p) in [("G + order-4 point (in E, outside 2E)", outside.clone()), ("H + order-4 point", dc.c.add(&h, &o4)), ("2G + the other order-4 point", dc.c.add(&dc.c.add(&g, &g), &o4b))] {
                let ap = AffinePoint::verif_from_coords_unchecked(fq(&p.x), fq(&p.y));
                ts.push(Target {
                    name: "new_witness(AffinePoint) with invalid coordinates".into(),
                    input: n.to_string(),
                    run: Box::new(move |cs| Ok(xy_of(&<ElementVar as AllocVar<AffinePoint, Fq>>::new_witness(cs.clone(), || Ok(ap))?))),
                    native: Native::ValidOnly,
                });
                let e2 = el_from_pt(&p, f);
                ts.push(Target {
                    name: "new_witness(Element) with invalid coordinates".into(),
                    input: format!("{n} (Element form)"),
                    run: Box::new(move |cs| Ok(xy_of(&<ElementVar as AllocVar<Element, Fq>>::new_witness(cs.clone(), || Ok(e2))?))),
                    native: Native::ValidOnly,
                });
            }
        }
        ts.push(Target {
            name: "new_witness(Element) with invalid coordinates".into(),
            input: "G + order-4 point (in E, outside 2E)".into(),
            run: Box::new(move |cs| Ok(xy_of(&<ElementVar as AllocVar<Element, Fq>>::new_witness(cs.clone(), || Ok(e))?))),
            native: Native::ValidOnly,
        });
    }
    // whole-circuit statements (the pinned Decompression / Compression / Elligator circuits) with
    // FALSE public inputs, and with the invalid witness q-1
    {
        let q1 = &dc.f().p - 1u32;
        let g = Element::GENERATOR;
        let pubs: Vec<(&str, Element)> = vec![("identity", Element::IDENTITY), ("G", g), ("H", Element::encode_to_curve(&Fq::one()))];
        let wit: Vec<(&str, BigUint)> = vec![("q-1", q1.clone()), ("enc(G)", u(8)), ("enc(2G)", fq_big(&(g + g).vartime_compress_to_field())), ("0", u(0))];
        for (wn, w) in &wit {
            for (pn, p) in &pubs {
                let fw = fq(w);
                let p = *p;
                let truth = Encoding(to32(w)).vartime_decompress().map(|e| e == p).unwrap_or(false);
                ts.push(Target {
                    name: "DecompressionCircuit".into(),
                    input: format!("witness s={wn}, public={pn}"),
                    run: Box::new(move |cs| {
                        let witness_var = FqVar::new_witness(cs.clone(), || Ok(fw))?;
                        let compressed_public = p.vartime_compress_to_field();
                        let public_var: ElementVar = AllocVar::new_input(cs.clone(), || Ok(compressed_public))?;
                        let test_public = ElementVar::decompress_from_field(witness_var)?;
                        public_var.enforce_equal(&test_public)?;
                        Ok(Out::None)
                    }),
                    native: Native::Statement(truth),
                });
            }
        }
        for (pn, p) in &pubs {
            for (fnm, fe) in [("enc(G)", u(8)), ("0", u(0)), ("enc(H)", fq_big(&pubs[2].1.vartime_compress_to_field()))] {
                let p = *p;
                let ffe = fq(&fe);
                let truth = p.vartime_compress_to_field() == ffe;
                ts.push(Target {
                    name: "CompressionCircuit".into(),
                    input: format!("witness point={pn}, public field element={fnm}"),
                    run: Box::new(move |cs| {
                        let witness_var = ElementVar::new_witness(cs.clone(), || Ok(p))?;
                        let public_var = FqVar::new_input(cs.clone(), || Ok(ffe))?;
                        let test_public = witness_var.compress_to_field()?;
                        public_var.enforce_equal(&test_public)?;
                        Ok(Out::None)
                    }),
                    native: Native::Statement(truth),
                });
            }
            for r0 in [0u64, 1, 2] {
                let p = *p;
                let fr0 = Fq::from(r0);
                let truth = Element::encode_to_curve(&fr0) == p;
                ts.push(Target {
                    name: "ElligatorCircuit".into(),
                    input: format!("witness r0={r0}, public={pn}"),
                    run: Box::new(move |cs| {
                        let witness_var = FqVar::new_witness(cs.clone(), || Ok(fr0))?;
                        let public_var: ElementVar = AllocVar::new_input(cs.clone(), || Ok(p))?;
                        let test_public = ElementVar::encode_to_curve(&witness_var)?;
                        public_var.enforce_equal(&test_public)?;
                        Ok(Out::None)
                    }),
                    native: Native::Statement(truth),
                });
            }
        }
    }
    ts
}

/// evaluate one fault: substitutions at one or two call sites
pub fn eval_fault(dc: &Decaf, t: &Target, subs: &[(usize, bool, Fq, String)]) -> Outcome {
    let s2: Vec<(usize, bool, Fq)> = subs.iter().map(|(i, f, y, _)| (*i, *f, *y)).collect();
    let res = run_with(t, &s2);
    let class = format!("{}/{}", t.name, if res.synth.is_sat() { "satisfied" } else { "rejected" });
    if !res.synth.is_sat() {
        return Outcome::ok(class);
    }
    match agrees(dc, &t.native, &res.out) {
        Ok(()) => Outcome::ok(format!("{class}-and-correct")),
        Err(why) => {
            let hint_desc: Vec<String> = subs.iter().map(|(i, _, _, n)| format!("call{i}:{n}")).collect();
            Outcome::bad(
                class,
                Viol {
                    key: format!("C14|{}|{}|{}", t.name, t.input, hint_desc.join("+")),
                    engine: "E2/C14".into(),
                    case: json!({"gadget": t.name, "input": t.input, "hints": subs.iter().map(|(i, f, y, n)| json!({"call": i, "flag": f, "y": fq_big(y).to_string(), "label": n})).collect::<Vec<_>>()}),
                    expected: "constraints NOT satisfied (or output == native result)".into(),
                    got: format!("satisfied; {why}; output {:?}", res.out),
                },
            )
        }
    }
}

/// Fault family B: non-canonical bit decompositions. After an honest synthesis, every window of
/// 253 consecutive Boolean-valued witnesses that spells a canonical x with x + q < 2^253 is
/// replaced by the bits of x + q (the only other 253-bit decomposition of the same field
/// element). A sound circuit range-checks its decompositions, so the system must become
/// unsatisfied; if it stays satisfied, the prover can flip the "sign" the gadget sees.
pub fn eval_altbits(dc: &Decaf, t: &Target) -> (usize, Outcome) {
    verif_hint::set(None);
    let cs = new_cs(prove_mode());
    let r = match guarded(|| (t.run)(&cs)) {
        Ok(r) => r,
        Err(_) => return (0, Outcome::trivial(format!("{}/altbits/panic-in-honest-run", t.name))),
    };
    if r.is_err() {
        return (0, Outcome::trivial(format!("{}/altbits/synthesis-error", t.name)));
    }
    let out = r.unwrap_or(Out::None);
    let q = dc.f().p.clone();
    let lim = BigUint::from(1u8) << 253;
    let honest: Vec<Fq> = cs.borrow().unwrap().witness_assignment.clone();
    let is_bit: Vec<bool> = honest.iter().map(|w| w.is_zero() || w.is_one()).collect();
    let mut tried = 0usize;
    let mut i = 0usize;
    while i + 253 <= honest.len() {
        if !is_bit[i..i + 253].iter().all(|b| *b) {
            i += 1;
            continue;
        }
        let mut x = BigUint::from(0u8);
        for (j, w) in honest[i..i + 253].iter().enumerate() {
            if w.is_one() {
                x.set_bit(j as u64, true);
            }
        }
        let alt = &x + &q;
        if x < q && alt < lim {
            tried += 1;
            {
                let mut inner = cs.borrow_mut().unwrap();
                for j in 0..253usize {
                    inner.witness_assignment[i + j] = if alt.bit(j as u64) { Fq::one() } else { Fq::zero() };
                }
            }
            let sat = cs.is_satisfied().unwrap_or(false);
            {
                let mut inner = cs.borrow_mut().unwrap();
                for j in 0..253usize {
                    inner.witness_assignment[i + j] = honest[i + j];
                }
            }
            if sat {
                // satisfied with a non-canonical decomposition: wrong unless native agrees anyway
                if let Err(why) = agrees(dc, &t.native, &out) {
                    return (
                        tried,
                        Outcome::bad(
                            format!("{}/altbits/satisfied", t.name),
                            Viol {
                                key: format!("C14|{}|{}|non-canonical bits at witness {}", t.name, t.input, i),
                                engine: "E2/C14".into(),
                                case: json!({"gadget": t.name, "input": t.input, "altbits_window": i}),
                                expected: "constraints NOT satisfied when a bit decomposition is replaced by the bits of x + q".into(),
                                got: format!("satisfied; {why}"),
                            },
                        ),
                    );
                }
                // output still correct: the decomposition is not range-checked, report as a class
                return (tried, Outcome::ok(format!("{}/altbits/satisfied-but-output-correct", t.name)));
            }
        }
        i += 1;
    }
    (tried, Outcome::ok(format!("{}/altbits/all-rejected", t.name)))
}

pub fn run(ctx: &Arc<Ctx>) {
    let env = Env::new();
    let dc = Decaf::new();
    let ts = targets(&env);
    // honest runs first: call sites, and the honest prover must itself be correct
    struct Site {
        t: usize,
        hints: Vec<Vec<(bool, Fq, String)>>,
    }
    let sites: Vec<Site> = ts
        .par_iter()
        .enumerate()
        .map(|(ti, t)| {
            let h = run_with(t, &[]);
            let hints = h.calls.iter().map(|(den, f, y)| hint_set(&dc, den, (*f, *y))).collect();
            Site { t: ti, hints }
        })
        .collect();
    // fault list
    let mut faults: Vec<(usize, Vec<(usize, usize)>)> = vec![]; // (target, [(call, hint idx)])
    for s in &sites {
        faults.push((s.t, vec![])); // honest prover (0 deviations)
        for (ci, hs) in s.hints.iter().enumerate() {
            for hi in 0..hs.len() {
                faults.push((s.t, vec![(ci, hi)]));
            }
        }
        if !ctx.quick() {
            for c1 in 0..s.hints.len() {
                for c2 in (c1 + 1)..s.hints.len() {
                    for h1 in 0..s.hints[c1].len() {
                        for h2 in 0..s.hints[c2].len() {
                            faults.push((s.t, vec![(c1, h1), (c2, h2)]));
                        }
                    }
                }
            }
        }
    }
    // deviation-bounded search reports MINIMAL fault sets: a pair that contains a single
    // substitution which already violates on its own is the same finding, not a new one
    let (singles, pairs): (Vec<_>, Vec<_>) = faults.into_iter().partition(|(_, f)| f.len() <= 1);
    let faults = singles;
    let violating_singles: dashmap::DashSet<(usize, usize, usize)> = dashmap::DashSet::new();
    let mk = |ti: usize, f: &Vec<(usize, usize)>| -> Vec<(usize, bool, Fq, String)> {
        f.iter().map(|&(c, h)| { let x = &sites[ti].hints[c][h]; (c, x.0, x.1, x.2.clone()) }).collect()
    };
    run_cases(
        ctx, "E2/C14", false,
        faults.par_iter(),
        |(ti, f)| {
            let subs = mk(*ti, f);
            if subs.is_empty() {
                // 0 deviations: the honest prover; satisfied iff native accepts, output correct
                let res = run_with(&ts[*ti], &[]);
                let native_ok = !matches!(ts[*ti].native, Native::Element(None) | Native::F(None) | Native::Statement(false) | Native::ValidOnly);
                let class = format!("{}/honest", ts[*ti].name);
                if res.synth.is_sat() {
                    if let Err(why) = agrees(&dc, &ts[*ti].native, &res.out) {
                        return Outcome::bad(class, Viol { key: format!("C14|{}|{}|honest", ts[*ti].name, ts[*ti].input), engine: "E2/C14".into(), case: json!({"gadget": ts[*ti].name, "input": ts[*ti].input, "hints": []}), expected: "honest prover: satisfied only with the native result".into(), got: why });
                    }
                } else if native_ok && !ts[*ti].name.contains("invalid coordinates") {
                    return Outcome::trivial(format!("{class}/unsat-on-valid (completeness is C13's)"));
                }
                return Outcome::ok(class);
            }
            let o = eval_fault(&dc, &ts[*ti], &subs);
            if o.viol.is_some() && f.len() == 1 {
                violating_singles.insert((*ti, f[0].0, f[0].1));
            }
            o
        },
        |(ti, f)| {
            let subs = mk(*ti, f);
            (format!("{}|{}", ts[*ti].name, ts[*ti].input), json!({"gadget": ts[*ti].name, "input": ts[*ti].input, "hints": subs.iter().map(|(i, f, y, n)| json!({"call": i, "flag": f, "y": fq_big(y).to_string(), "label": n})).collect::<Vec<_>>()}))
        },
    );
    let npairs_all = pairs.len();
    let pairs: Vec<(usize, Vec<(usize, usize)>)> = pairs.into_iter().filter(|(ti, f)| !f.iter().any(|(c, h)| violating_singles.contains(&(*ti, *c, *h)))).collect();
    let nfaults = faults.len() + pairs.len();
    run_cases(
        ctx, "E2/C14", false,
        pairs.par_iter(),
        |(ti, f)| eval_fault(&dc, &ts[*ti], &mk(*ti, f)),
        |(ti, f)| {
            let subs = mk(*ti, f);
            (format!("{}|{}", ts[*ti].name, ts[*ti].input), json!({"gadget": ts[*ti].name, "input": ts[*ti].input, "hints": subs.iter().map(|(i, f, y, n)| json!({"call": i, "flag": f, "y": fq_big(y).to_string(), "label": n})).collect::<Vec<_>>()}))
        },
    );
    ctx.report.set("C14_pairs", json!({"pairs_enumerated": pairs.len(), "pairs_skipped_as_supersets_of_a_violating_single": npairs_all - pairs.len()}));
    // fault family B on every target
    let idx: Vec<usize> = (0..ts.len()).collect();
    let windows = std::sync::atomic::AtomicU64::new(0);
    run_cases(
        ctx, "E2/C14-altbits", false,
        idx.par_iter(),
        |&&ti| {
            let (n, o) = eval_altbits(&dc, &ts[ti]);
            windows.fetch_add(n as u64, std::sync::atomic::Ordering::Relaxed);
            o
        },
        |&&ti| (format!("{}|{}", ts[ti].name, ts[ti].input), json!({"gadget": ts[ti].name, "input": ts[ti].input, "altbits_window": "all"})),
    );
    ctx.report.set("C14_altbits_windows_substituted", json!(windows.load(std::sync::atomic::Ordering::Relaxed)));
    let ncalls: usize = sites.iter().map(|s| s.hints.len()).sum();
    ctx.report.set("C14_faults", json!({"targets": ts.len(), "isqrt_call_sites": ncalls, "fault_sequences": nfaults, "deviation_bound": if ctx.quick() { 1 } else { 2 }}));
    ctx.report.rule(format!("E2/C14[ark]: {} (gadget, input) targets with {} isqrt call sites in total; every hint of H(den) = {{true,false}} x {{0, +-1, 2, 3, +-sqrt(1/den'), +-sqrt(zeta/den'), +-honest y, honest y + 1}} substituted at each call site ({}); plus off-curve / out-of-group witnessed coordinates via hook H1; a fault sequence is distinct by (gadget, input, call sites, hints)", ts.len(), ncalls, if ctx.quick() { "one site at a time" } else { "one site and all pairs of sites" }));
    ctx.report.rule("E2/C14-altbits[ark]: fault family B: on every target, every window of 253 consecutive Boolean witnesses spelling a canonical x with x + q < 2^253 is replaced by the bits of x + q; must become unsatisfied (or the output must still equal the native result)");
    ctx.report.assume("C14: the hint set is complete for satisfying hints because the isqrt constraint block forces y^2 in {1/den', 0, zeta/den'} (den' = den, or 1 when den = 0) according to the flag");
}

pub fn replay(case: &Value) -> (bool, Value) {
    let env = Env::new();
    let dc = Decaf::new();
    let ts = targets(&env);
    let t = match ts.iter().find(|t| Some(t.name.as_str()) == case["gadget"].as_str() && Some(t.input.as_str()) == case["input"].as_str()) {
        Some(t) => t,
        None => return (false, json!({"error": "unknown target"})),
    };
    if !case["altbits_window"].is_null() {
        let (_, o) = eval_altbits(&dc, t);
        return match o.viol {
            Some(v) => (false, json!({"class": o.class, "expected": v.expected, "got": v.got})),
            None => (true, json!({"class": o.class})),
        };
    }
    let subs: Vec<(usize, bool, Fq, String)> = case["hints"]
        .as_array()
        .map(|a| a.iter().map(|h| (h["call"].as_u64().unwrap_or(0) as usize, h["flag"].as_bool().unwrap_or(false), fq(&h["y"].as_str().unwrap_or("0").parse::<BigUint>().unwrap_or_default()), h["label"].as_str().unwrap_or("").to_string())).collect())
        .unwrap_or_default();
    let o = eval_fault(&dc, t, &subs);
    match o.viol {
        Some(v) => (false, json!({"class": o.class, "expected": v.expected, "got": v.got})),
        None => (true, json!({"class": o.class})),
    }
}
