//! Layered parallel breadth-first explicit-state explorer over a `stateright::Model`.
//!
//! The model trait (init_states / actions / next_state / within_boundary / properties) is
//! stateright's, so the very same model object can also be handed to stateright's own checker;
//! `explorer::run` does that at small depth and requires identical distinct-state counts
//! (cross-validation of this engine's bookkeeping). This engine exists because stateright's
//! BFS hands out work in blocks of 1500 states and keeps a full action path per queued state,
//! which serialises the search for models with ~300 transitions per state.
//!
//! Visited set: 128-bit fingerprints (two independently keyed 64-bit hashes of the full state).
//! Every `always` property is evaluated exactly once per distinct state, when the state is first
//! generated; the first failing state per property and per run is kept with its parent link so
//! the action path can be rebuilt by re-execution (model must be deterministic).
use dashmap::{DashMap, DashSet};
use rayon::prelude::*;
use stateright::{Expectation, Model, Property};
use std::collections::HashMap;
use std::hash::{Hash, Hasher};
use std::sync::atomic::{AtomicU64, Ordering};
use std::sync::Mutex;

pub struct Discovery<M: Model> {
    pub prop: &'static str,
    pub init_index: usize,
    pub actions: Vec<M::Action>,
    pub states: Vec<M::State>,
}

#[derive(Debug, Default, Clone)]
pub struct BfsStats {
    pub unique: u64,
    pub generated: u64,
    pub per_depth: Vec<u64>,
    pub property_evaluations: u64,
}

pub fn fp128<T: Hash>(t: &T) -> u128 {
    let mut h1 = std::collections::hash_map::DefaultHasher::new();
    0x9e3779b97f4a7c15u64.hash(&mut h1);
    t.hash(&mut h1);
    let mut h2 = std::collections::hash_map::DefaultHasher::new();
    0xc2b2ae3d27d4eb4fu64.hash(&mut h2);
    t.hash(&mut h2);
    0xdeadbeefu32.hash(&mut h2);
    ((h1.finish() as u128) << 64) | h2.finish() as u128
}

enum Link {
    Init(usize),
    Step(u128, u32),
}

pub fn run_bfs<M>(model: &M) -> (BfsStats, Vec<Discovery<M>>)
where
    M: Model + Sync,
    M::State: Hash + Clone + Send + Sync,
    M::Action: Clone + Send + Sync,
{
    let props: Vec<Property<M>> = model.properties().into_iter().filter(|p| p.expectation == Expectation::Always).collect();
    let visited: DashSet<u128> = DashSet::new();
    let parents: DashMap<u128, Link> = DashMap::new();
    // prop -> (fingerprint of failing state, its link, the failing state)
    let found: Mutex<HashMap<&'static str, (Link, M::State)>> = Mutex::new(HashMap::new());
    let generated = AtomicU64::new(0);
    let evals = AtomicU64::new(0);

    let check = |s: &M::State, link: &dyn Fn() -> Link| {
        for p in &props {
            evals.fetch_add(1, Ordering::Relaxed);
            if !(p.condition)(model, s) {
                let mut f = found.lock().unwrap();
                f.entry(p.name).or_insert_with(|| (link(), s.clone()));
            }
        }
    };

    let inits = model.init_states();
    let mut frontier: Vec<(M::State, u128)> = vec![];
    for (i, s) in inits.iter().enumerate() {
        if !model.within_boundary(s) {
            continue;
        }
        let fp = fp128(s);
        if visited.insert(fp) {
            check(s, &|| Link::Init(i));
            parents.insert(fp, Link::Init(i));
            frontier.push((s.clone(), fp));
        }
    }
    let mut per_depth = vec![frontier.len() as u64];
    while !frontier.is_empty() {
        let next: Vec<(M::State, u128)> = frontier
            .par_iter()
            .fold(Vec::new, |mut acc, (s, fp)| {
                let mut acts = Vec::new();
                let mut scratch = Vec::new();
                model.actions(s, &mut acts);
                for (i, a) in acts.drain(..).enumerate() {
                    let ns = match model.next_state(s, a) {
                        Some(ns) => ns,
                        None => continue,
                    };
                    if !model.within_boundary(&ns) {
                        continue;
                    }
                    generated.fetch_add(1, Ordering::Relaxed);
                    let nfp = fp128(&ns);
                    if visited.insert(nfp) {
                        check(&ns, &|| Link::Step(*fp, i as u32));
                        scratch.clear();
                        model.actions(&ns, &mut scratch);
                        if !scratch.is_empty() {
                            parents.insert(nfp, Link::Step(*fp, i as u32));
                            acc.push((ns, nfp));
                        }
                    }
                }
                acc
            })
            .reduce(Vec::new, |mut a, mut b| {
                if a.len() < b.len() {
                    std::mem::swap(&mut a, &mut b);
                }
                a.append(&mut b);
                a
            });
        let total_so_far: u64 = per_depth.iter().sum();
        per_depth.push(visited.len() as u64 - total_so_far);
        frontier = next;
    }
    if per_depth.last() == Some(&0) {
        per_depth.pop();
    }

    // rebuild paths by re-execution
    let mut discoveries = vec![];
    let found = found.into_inner().unwrap();
    for (name, (link, last)) in found {
        let mut idxs: Vec<u32> = vec![];
        let mut cur = link;
        let init_index;
        loop {
            match cur {
                Link::Init(i) => {
                    init_index = i;
                    break;
                }
                Link::Step(pfp, ai) => {
                    idxs.push(ai);
                    cur = match parents.get(&pfp).map(|l| match &*l {
                        Link::Init(i) => Link::Init(*i),
                        Link::Step(a, b) => Link::Step(*a, *b),
                    }) {
                        Some(l) => l,
                        None => panic!("bfs: broken parent chain"),
                    };
                }
            }
        }
        idxs.reverse();
        let mut s = inits[init_index].clone();
        let mut actions = vec![];
        let mut states = vec![s.clone()];
        for ai in idxs {
            let mut acts = Vec::new();
            model.actions(&s, &mut acts);
            let a = acts[ai as usize].clone();
            let ns = model.next_state(&s, a.clone()).expect("bfs: replay diverged (model not deterministic)");
            actions.push(a);
            states.push(ns.clone());
            s = ns;
        }
        assert!(fp128(&s) == fp128(&last), "bfs: replayed path does not end in the recorded state (nondeterminism)");
        discoveries.push(Discovery { prop: name, init_index, actions, states });
    }
    discoveries.sort_by_key(|d| d.prop);
    (
        BfsStats { unique: visited.len() as u64, generated: generated.load(Ordering::Relaxed), per_depth, property_evaluations: evals.load(Ordering::Relaxed) },
        discoveries,
    )
}
