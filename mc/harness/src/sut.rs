//! Build-agnostic adaptor over the system under test (the `decaf377` crate built from /repo).
//! Values cross the boundary as canonical little-endian bytes <-> BigUint.
pub use decaf377::{Element, Encoding, Fp, Fq, Fr};
use num_bigint::BigUint;
use refmodel::curve::Pt;
use refmodel::fld::{to32, to_le_n};

#[cfg(feature = "ark")]
pub type Affine = <Element as ark_ec::CurveGroup>::Affine;

pub fn fq(b: &BigUint) -> Fq {
    Fq::from_bytes_checked(&to32(b)).expect("harness: canonical Fq input")
}
pub fn fq_big(x: &Fq) -> BigUint {
    BigUint::from_bytes_le(&x.to_bytes_le())
}
pub fn fq_b32(b: &[u8; 32]) -> Fq {
    Fq::from_bytes_checked(b).expect("harness: canonical Fq bytes")
}
pub fn fr(b: &BigUint) -> Fr {
    Fr::from_bytes_checked(&to32(b)).expect("harness: canonical Fr input")
}
pub fn fr_big(x: &Fr) -> BigUint {
    BigUint::from_bytes_le(&x.to_bytes_le())
}
pub fn fp(b: &BigUint) -> Fp {
    let v = to_le_n(b, 48);
    let mut a = [0u8; 48];
    a.copy_from_slice(&v);
    Fp::from_bytes_checked(&a).expect("harness: canonical Fp input")
}
pub fn fp_big(x: &Fp) -> BigUint {
    BigUint::from_bytes_le(&x.to_bytes_le())
}

/// exact internal representative of an Element: X, Y, Z, T canonical bytes
pub type Coords = [[u8; 32]; 4];

pub fn el_coords(e: &Element) -> Coords {
    let c = e.verif_coords();
    [c[0].to_bytes_le(), c[1].to_bytes_le(), c[2].to_bytes_le(), c[3].to_bytes_le()]
}
pub fn el_from_coords(c: &Coords) -> Element {
    Element::verif_from_coords_unchecked(fq_b32(&c[0]), fq_b32(&c[1]), fq_b32(&c[2]), fq_b32(&c[3]))
}
pub fn el_from_big(x: &BigUint, y: &BigUint, z: &BigUint, t: &BigUint) -> Element {
    Element::verif_from_coords_unchecked(fq(x), fq(y), fq(z), fq(t))
}
/// Element with Z = 1 from a reference affine point
pub fn el_from_pt(p: &Pt, f: &refmodel::fld::Fld) -> Element {
    el_from_big(&p.x, &p.y, &BigUint::from(1u32), &f.mul(&p.x, &p.y))
}
pub fn coords_big(c: &Coords) -> [BigUint; 4] {
    [BigUint::from_bytes_le(&c[0]), BigUint::from_bytes_le(&c[1]), BigUint::from_bytes_le(&c[2]), BigUint::from_bytes_le(&c[3])]
}

#[cfg(feature = "ark")]
pub fn af_coords(a: &Affine) -> Coords {
    let c = a.verif_coords();
    [c[0].to_bytes_le(), c[1].to_bytes_le(), [0u8; 32], [0u8; 32]]
}
#[cfg(feature = "ark")]
pub fn af_from_coords(c: &Coords) -> Affine {
    Affine::verif_from_coords_unchecked(fq_b32(&c[0]), fq_b32(&c[1]))
}

pub fn hex_coords(c: &Coords) -> Vec<String> {
    c.iter().map(|b| hex::encode(b)).collect()
}

/// limbs (little-endian u64) of an arbitrary-size non-negative integer, exactly `n` limbs
pub fn limbs_n(k: &BigUint, n: usize) -> Vec<u64> {
    let v = to_le_n(k, n * 8);
    (0..n).map(|i| u64::from_le_bytes(v[8 * i..8 * i + 8].try_into().unwrap())).collect()
}
