//! mc-ark / mc-min: one source tree, two binaries (decaf377 with the arkworks+r1cs features, and
//! decaf377 with --no-default-features), both built with --cfg decaf377_verif against /repo.
mod bfs;
mod c02;
mod c05;
#[cfg(feature = "ark")]
mod c06;
mod c07;
mod c09;
mod c10;
mod c11;
mod c12;
#[cfg(feature = "ark")]
mod c13;
#[cfg(feature = "ark")]
mod c14;
#[cfg(feature = "ark")]
mod c15;
#[cfg(feature = "ark")]
mod c16;
#[cfg(feature = "ark")]
mod r1cs_util;
mod c17;
mod core;
mod explorer;
mod fields;
mod sqrtclass;
mod sut;

use crate::core::*;
use serde_json::Value;
use std::path::PathBuf;
use std::sync::Arc;

fn usage() -> ! {
    eprintln!("usage: mc-<build> run <Cxx> <quick|thorough> [--out f] [--replays dir] [--known f]\n       mc-<build> replay <file> [--known f]");
    std::process::exit(2)
}

fn load_known(p: &Option<PathBuf>) -> Vec<Known> {
    match p {
        Some(p) => match std::fs::read_to_string(p) {
            Ok(s) => {
                let v: Value = serde_json::from_str(&s).expect("known_findings.json parses");
                serde_json::from_value(v.get("findings").cloned().unwrap_or(Value::Array(vec![]))).expect("known findings schema")
            }
            Err(_) => vec![],
        },
        None => vec![],
    }
}

fn selfcheck_or_die() {
    let dc = refmodel::spec::Decaf::new();
    let bad = refmodel::selfcheck::run(&dc);
    if !bad.is_empty() {
        eprintln!("MACHINERY-ERROR: reference model self-check failed: {bad:?}");
        std::process::exit(2);
    }
}

fn main() {
    let args: Vec<String> = std::env::args().collect();
    if args.len() < 3 {
        usage();
    }
    let mut out = None;
    let mut replays = PathBuf::from("/verif/replays");
    let mut known = None;
    let mut i = 2;
    let mut pos = vec![];
    while i < args.len() {
        match args[i].as_str() {
            "--out" => { out = Some(PathBuf::from(&args[i + 1])); i += 2; }
            "--replays" => { replays = PathBuf::from(&args[i + 1]); i += 2; }
            "--known" => { known = Some(PathBuf::from(&args[i + 1])); i += 2; }
            _ => { pos.push(args[i].clone()); i += 1; }
        }
    }
    install_quiet_panic_hook();
    selfcheck_or_die();
    let seed: u64 = std::env::var("VERIF_SEED").ok().and_then(|s| s.parse().ok()).unwrap_or(0);
    match args[1].as_str() {
        "run" => {
            if pos.len() < 2 { usage(); }
            let tier = match pos[1].as_str() { "quick" => Tier::Quick, "thorough" => Tier::Thorough, _ => usage() };
            let ctx = Arc::new(Ctx { prop: pos[0].clone(), tier, seed, replay_dir: replays, out, known: load_known(&known), report: Report::new() });
            let level = dispatch(&ctx);
            let code = ctx.finish(level);
            std::process::exit(code);
        }
        "c12dump" => {
            if pos.len() < 3 { usage(); }
            c12::dump(&pos[0], &pos[1], pos[2].parse().expect("chunk index"));
            std::process::exit(0);
        }
        "replay" => {
            if pos.is_empty() { usage(); }
            let doc: Value = serde_json::from_str(&std::fs::read_to_string(&pos[0]).expect("read replay")).expect("replay parses");
            let code = replay(&doc);
            std::process::exit(code);
        }
        _ => usage(),
    }
}

fn dispatch(ctx: &Arc<Ctx>) -> &'static str {
    match ctx.prop.as_str() {
        "C01" | "C03" | "C04" | "C05" | "C06" | "C08" => {
            explorer::run(ctx, explorer::Sel::from(&ctx.prop).unwrap());
            if ctx.prop == "C01" {
                c02::run(ctx, c02::Mode::C01b);
            }
            if ctx.prop == "C01" || ctx.prop == "C03" || ctx.prop == "C08" {
                explorer::structured_points(ctx);
            }
            if ctx.prop == "C05" {
                c05::run(ctx);
            }
            #[cfg(feature = "ark")]
            if ctx.prop == "C06" {
                c06::run(ctx);
            }
            "model_checking"
        }
        "C02" => {
            c02::run(ctx, c02::Mode::C02);
            "exploration"
        }
        "C07" => {
            c07::run(ctx);
            "exploration"
        }
        "C09" => {
            c09::run(ctx);
            "exploration"
        }
        "C11" => {
            c11::run(ctx);
            "exploration"
        }
        #[cfg(feature = "ark")]
        "C13" => {
            c13::run(ctx);
            "model_checking"
        }
        #[cfg(feature = "ark")]
        "C14" => {
            c14::run(ctx);
            "fault_enumeration"
        }
        #[cfg(feature = "ark")]
        "C15" => {
            c15::run(ctx);
            "exploration"
        }
        #[cfg(feature = "ark")]
        "C16" => {
            c16::run(ctx);
            "exploration"
        }
        "C12" => {
            c12::run(ctx);
            "exploration"
        }
        "C17" => {
            c17::run(ctx);
            "exploration"
        }
        "C10" => {
            c10::run(ctx);
            "model_checking"
        }
        p => {
            eprintln!("MACHINERY-ERROR: no check for {p} in build {BUILD}");
            std::process::exit(2);
        }
    }
}

/// Re-execute a recorded violation on the real code, twice, without the explorer.
fn replay(doc: &Value) -> i32 {
    let engine = doc["engine"].as_str().unwrap_or("");
    let prop = doc["property"].as_str().unwrap_or("");
    if doc["build"].as_str() != Some(BUILD) {
        println!("replay is for build {} (this is {BUILD}); skipped", doc["build"]);
        return 0;
    }
    let doc2 = doc.clone();
    let engine = engine.to_string();
    let prop2 = prop.to_string();
    let once = move || -> (bool, Value) {
        let doc = doc2.clone();
        let engine = engine.clone();
        let prop = prop2.clone();
        // run in a thread so that a non-terminating case is reported instead of hanging
        let (tx, rx) = std::sync::mpsc::channel();
        std::thread::spawn(move || {
            let res = match engine.as_str() {
                "E1" => {
                    let sel = explorer::Sel::from(&prop).unwrap_or(explorer::Sel::C04);
                    let gm = explorer::build_model(sel, 255);
                    let acts: Vec<Value> = doc["case"]["actions"].as_array().cloned().unwrap_or_default();
                    let (ok, trace) = explorer::replay_path(&gm, doc["case"]["seed"].as_str().unwrap_or(""), &acts);
                    (ok, Value::Array(trace))
                }
                e if e.starts_with("E3/C10") || e.starts_with("E1/C10") => match guarded(|| c10::replay(&doc["case"])) {
                    Ok(r) => r,
                    Err(m) => (false, Value::String(format!("panic: {m}"))),
                },
                e if e.starts_with("E3/points") => match guarded(|| explorer::replay_point(&doc["case"], &prop)) {
                    Ok(r) => r,
                    Err(m) => (false, Value::String(format!("panic: {m}"))),
                },
                e if e.starts_with("E3/C02") || e.starts_with("E3/C01b") => match guarded(|| c02::replay(&doc["case"], e)) {
                    Ok(r) => r,
                    Err(m) => (false, Value::String(format!("panic: {m}"))),
                },
                e if e.starts_with("E3/C05") => match guarded(|| c05::replay(&doc["case"])) {
                    Ok(r) => r,
                    Err(m) => (false, Value::String(format!("panic: {m}"))),
                },
                #[cfg(feature = "ark")]
                e if e.starts_with("E3/C06") => match guarded(|| c06::replay(&doc["case"])) {
                    Ok(r) => r,
                    Err(m) => (false, Value::String(format!("panic: {m}"))),
                },
                e if e.starts_with("E3/C07") => match guarded(|| c07::replay(&doc["case"])) {
                    Ok(r) => r,
                    Err(m) => (false, Value::String(format!("panic: {m}"))),
                },
                e if e.starts_with("E3/C09") => match guarded(|| c09::replay(&doc["case"])) {
                    Ok(r) => r,
                    Err(m) => (false, Value::String(format!("panic: {m}"))),
                },
                e if e.starts_with("E3/C11") => match guarded(|| c11::replay(&doc["case"])) {
                    Ok(r) => r,
                    Err(m) => (false, Value::String(format!("panic: {m}"))),
                },
                #[cfg(feature = "ark")]
                e if e.starts_with("E3/C13") || e.starts_with("E2/C13") => match guarded(|| c13::replay(&doc["case"])) {
                    Ok(r) => r,
                    Err(m) => (false, Value::String(format!("panic: {m}"))),
                },
                #[cfg(feature = "ark")]
                e if e.starts_with("E2/C14") => match guarded(|| c14::replay(&doc["case"])) {
                    Ok(r) => r,
                    Err(m) => (false, Value::String(format!("panic: {m}"))),
                },
                #[cfg(feature = "ark")]
                e if e.starts_with("E3/C15") => match guarded(|| c15::replay(&doc["case"])) {
                    Ok(r) => r,
                    Err(m) => (false, Value::String(format!("panic: {m}"))),
                },
                #[cfg(feature = "ark")]
                e if e.starts_with("E3/C16") => match guarded(|| c16::replay(&doc["case"])) {
                    Ok(r) => r,
                    Err(m) => (false, Value::String(format!("panic: {m}"))),
                },
                e if e.starts_with("E3/C17") => match guarded(|| c17::replay(&doc["case"])) {
                    Ok(r) => r,
                    Err(m) => (false, Value::String(format!("panic: {m}"))),
                },
                e => (true, Value::String(format!("no replayer for engine {e}"))),
            };
            let _ = tx.send(res);
        });
        match rx.recv_timeout(std::time::Duration::from_secs(30)) {
            Ok(r) => r,
            Err(_) => (false, Value::String("did not terminate within 30 s".into())),
        }
    };
    let (ok1, t1) = once();
    let (ok2, t2) = once();
    if t1 != t2 {
        println!("REPLAY-NONDETERMINISTIC: two executions of the same replay differ");
        return 2;
    }
    println!("{}", serde_json::to_string_pretty(&t1).unwrap());
    if ok1 && ok2 {
        println!("REPLAY: property holds on this case now");
        0
    } else {
        println!("REPLAY: VIOLATION reproduced property={prop}");
        1
    }
}
