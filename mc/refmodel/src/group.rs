//! The abstract group the implementation is compared with: the free Z/r-module (Z/r)^2 on the
//! basis {G, H}. Group law = vector addition mod r; scalar multiplication = multiplication mod r.
//! `concretise` maps a vector to its curve point by the reference double-and-add.
use crate::curve::Pt;
use crate::fld::{from_limbs, limbs4};
use crate::spec::Decaf;
use num_bigint::BigUint;
use num_traits::Zero;

/// canonical coefficients (each < r) as little-endian 64-bit limbs
#[derive(Clone, Copy, Debug, PartialEq, Eq, Hash, PartialOrd, Ord)]
pub struct V2(pub [[u64; 4]; 2]);

pub struct GroupModel {
    pub dc: Decaf,
    pub basis: [Pt; 2],
}

impl GroupModel {
    pub fn new(dc: Decaf, h: Pt) -> Self {
        let g = dc.generator();
        GroupModel { dc, basis: [g, h] }
    }
    pub fn r(&self) -> &BigUint {
        &self.dc.r
    }
    pub fn v(&self, a: &BigUint, b: &BigUint) -> V2 {
        V2([limbs4(&(a % self.r())), limbs4(&(b % self.r()))])
    }
    pub fn vi(&self, a: i64, b: i64) -> V2 {
        let f = |x: i64| -> BigUint {
            if x >= 0 {
                BigUint::from(x as u64)
            } else {
                self.r() - BigUint::from((-x) as u64)
            }
        };
        self.v(&f(a), &f(b))
    }
    pub fn zero(&self) -> V2 {
        V2([[0; 4]; 2])
    }
    pub fn coef(&self, v: &V2, i: usize) -> BigUint {
        from_limbs(&v.0[i])
    }
    pub fn add(&self, x: &V2, y: &V2) -> V2 {
        self.v(&(self.coef(x, 0) + self.coef(y, 0)), &(self.coef(x, 1) + self.coef(y, 1)))
    }
    pub fn neg(&self, x: &V2) -> V2 {
        self.v(&(self.r() - self.coef(x, 0)), &(self.r() - self.coef(x, 1)))
    }
    pub fn sub(&self, x: &V2, y: &V2) -> V2 {
        self.add(x, &self.neg(y))
    }
    /// k may be any non-negative integer (it acts through k mod r)
    pub fn smul(&self, k: &BigUint, x: &V2) -> V2 {
        let k = k % self.r();
        self.v(&(self.coef(x, 0) * &k), &(self.coef(x, 1) * &k))
    }
    pub fn is_zero(&self, x: &V2) -> bool {
        x.0[0] == [0; 4] && x.0[1] == [0; 4]
    }
    /// a*G + b*H as a curve point (a representative of the class)
    pub fn concretise(&self, x: &V2) -> Pt {
        let c = &self.dc.c;
        let a = self.coef(x, 0);
        let b = self.coef(x, 1);
        let pa = if a.is_zero() { c.identity() } else { c.mul(&self.basis[0], &a) };
        if b.is_zero() {
            return pa;
        }
        let pb = c.mul(&self.basis[1], &b);
        c.add(&pa, &pb)
    }
}
