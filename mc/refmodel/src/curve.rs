//! The twisted Edwards curve  a x^2 + y^2 = 1 + d x^2 y^2  in affine coordinates with the
//! complete addition law; extended coordinates only inside the scalar multiplication.
use crate::fld::{u, Fld};
use num_bigint::BigUint;
use num_traits::{One, Zero};

#[derive(Clone, Debug, PartialEq, Eq, Hash, PartialOrd, Ord)]
pub struct Pt {
    pub x: BigUint,
    pub y: BigUint,
}

#[derive(Clone, Debug)]
pub struct Curve {
    pub f: Fld,
    pub a: BigUint,
    pub d: BigUint,
}

impl Curve {
    pub fn identity(&self) -> Pt {
        Pt { x: BigUint::zero(), y: BigUint::one() }
    }
    /// the rational point of order two (0, -1)
    pub fn torsion2(&self) -> Pt {
        Pt { x: BigUint::zero(), y: self.f.neg(&BigUint::one()) }
    }
    pub fn on_curve(&self, p: &Pt) -> bool {
        let f = &self.f;
        if p.x >= f.p || p.y >= f.p {
            return false;
        }
        let xx = f.sqr(&p.x);
        let yy = f.sqr(&p.y);
        let lhs = f.add(&f.mul(&self.a, &xx), &yy);
        let rhs = f.add(&BigUint::one(), &f.mul(&self.d, &f.mul(&xx, &yy)));
        lhs == rhs
    }
    pub fn add(&self, p: &Pt, q: &Pt) -> Pt {
        let f = &self.f;
        let x1y2 = f.mul(&p.x, &q.y);
        let y1x2 = f.mul(&p.y, &q.x);
        let y1y2 = f.mul(&p.y, &q.y);
        let x1x2 = f.mul(&p.x, &q.x);
        let dxy = f.mul(&self.d, &f.mul(&x1x2, &y1y2));
        let one = BigUint::one();
        let x3 = f.div(&f.add(&x1y2, &y1x2), &f.add(&one, &dxy));
        let y3 = f.div(&f.sub(&y1y2, &f.mul(&self.a, &x1x2)), &f.sub(&one, &dxy));
        Pt { x: x3, y: y3 }
    }
    pub fn neg(&self, p: &Pt) -> Pt {
        Pt { x: self.f.neg(&p.x), y: p.y.clone() }
    }
    pub fn sub(&self, p: &Pt, q: &Pt) -> Pt {
        self.add(p, &self.neg(q))
    }
    /// the other member of the coset {P, P + (0,-1)} = {(x,y), (-x,-y)}
    pub fn other_rep(&self, p: &Pt) -> Pt {
        Pt { x: self.f.neg(&p.x), y: self.f.neg(&p.y) }
    }
    pub fn same_class(&self, p: &Pt, q: &Pt) -> bool {
        p == q || *p == self.other_rep(q)
    }
    pub fn is_identity_class(&self, p: &Pt) -> bool {
        p.x.is_zero()
    }
    /// k * P for an arbitrary non-negative integer k (double-and-add, extended coordinates,
    /// unified a-generic formulas add-2008-hwcd; one inversion at the end).
    pub fn mul(&self, p: &Pt, k: &BigUint) -> Pt {
        let f = &self.f;
        let one = BigUint::one();
        type E = (BigUint, BigUint, BigUint, BigUint); // X Y Z T
        let ext_add = |p1: &E, p2: &E| -> E {
            let a_ = f.mul(&p1.0, &p2.0);
            let b_ = f.mul(&p1.1, &p2.1);
            let c_ = f.mul(&f.mul(&p1.3, &self.d), &p2.3);
            let d_ = f.mul(&p1.2, &p2.2);
            let e_ = f.sub(&f.sub(&f.mul(&f.add(&p1.0, &p1.1), &f.add(&p2.0, &p2.1)), &a_), &b_);
            let f_ = f.sub(&d_, &c_);
            let g_ = f.add(&d_, &c_);
            let h_ = f.sub(&b_, &f.mul(&self.a, &a_));
            (f.mul(&e_, &f_), f.mul(&g_, &h_), f.mul(&f_, &g_), f.mul(&e_, &h_))
        };
        let mut acc: E = (BigUint::zero(), one.clone(), one.clone(), BigUint::zero());
        let mut work: E = (p.x.clone(), p.y.clone(), one.clone(), f.mul(&p.x, &p.y));
        let bits = k.bits();
        for i in 0..bits {
            if k.bit(i) {
                acc = ext_add(&acc, &work);
            }
            if i + 1 < bits {
                work = ext_add(&work, &work);
            }
        }
        let zi = f.inv(&acc.2).expect("Z != 0 for complete formulas");
        Pt { x: f.mul(&acc.0, &zi), y: f.mul(&acc.1, &zi) }
    }
    pub fn small(&self, k: u64, p: &Pt) -> Pt {
        self.mul(p, &u(k))
    }
}
