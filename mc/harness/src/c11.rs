//! C11 -- field-element encodings and conversions are canonical and mutually consistent.
//! Oracle: the integer the bytes denote (BigUint), reduced mod p where reduction is specified,
//! required < p where canonicity is.
use crate::core::*;
use crate::fields::*;
use num_bigint::BigUint;
use num_traits::{One, Zero};
use rayon::prelude::*;
use refmodel::fld::{to_le_n, Fld};
use serde_json::{json, Value};
use std::sync::Arc;

fn mkv(field: &str, what: &str, case: Value, expected: String, got: String) -> Viol {
    Viol { key: format!("C11|{field}|{what}"), engine: "E3/C11".into(), case, expected, got }
}

/// byte-string contents for the reduction tests
pub fn contents(p: &BigUint, nbytes: usize, len: usize) -> Vec<(&'static str, Vec<u8>)> {
    let pb = to_le_n(p, nbytes);
    let pm1 = to_le_n(&(p - 1u32), nbytes);
    let mut v: Vec<(&'static str, Vec<u8>)> = vec![];
    v.push(("zeros", vec![0u8; len]));
    v.push(("ones", vec![0xffu8; len]));
    let mut hb = vec![0u8; len];
    if len > 0 {
        hb[len - 1] = 0x80;
    }
    v.push(("high-bit", hb));
    let mut lb = vec![0u8; len];
    if len > 0 {
        lb[0] = 1;
    }
    v.push(("low-bit", lb));
    v.push(("p-repeated", pb.iter().cycle().take(len).cloned().collect()));
    v.push(("p-1-repeated", pm1.iter().cycle().take(len).cloned().collect()));
    v.push(("ramp", (0..len).map(|i| (i * 7 + 3) as u8).collect()));
    v.push(("alternating", (0..len).map(|i| if i % 2 == 0 { 0xaa } else { 0x55 }).collect()));
    let mut t = vec![0xffu8; len];
    if len > 0 {
        t[len - 1] = 0x7f;
        t[0] = 0xfe;
    }
    v.push(("7f-tail", t));
    v
}

pub fn eval_reduce<F: FS>(fld: &Fld, bytes: &[u8], label: &str) -> Outcome {
    let class = format!("{}/reduce/{}chunks/{}", F::NAME, (bytes.len() + F::NBYTES - 1) / F::NBYTES, if BigUint::from_bytes_le(bytes) >= fld.p { "wraps" } else { "small" });
    let case = || json!({"field": F::NAME, "kind": "reduce", "bytes": hex::encode(bytes), "content": label});
    let want = BigUint::from_bytes_le(bytes) % &fld.p;
    let got = F::from_le_mod(bytes).big();
    if got != want {
        return Outcome::bad(class, mkv(F::NAME, "from_le_bytes_mod_order", case(), want.to_string(), got.to_string()));
    }
    Outcome::ok(class)
}

#[cfg(feature = "ark")]
pub fn eval_reduce_ark<F: FS + ark_ff::PrimeField + From<BigUint>>(fld: &Fld, bytes: &[u8], label: &str) -> Outcome {
    use ark_ff::PrimeField;
    let class = format!("{}/reduce-ark/{}chunks", F::NAME, (bytes.len() + F::NBYTES - 1) / F::NBYTES);
    let case = || json!({"field": F::NAME, "kind": "reduce_ark", "bytes": hex::encode(bytes), "content": label});
    let want_le = BigUint::from_bytes_le(bytes) % &fld.p;
    let want_be = BigUint::from_bytes_be(bytes) % &fld.p;
    let g = <F as PrimeField>::from_le_bytes_mod_order(bytes).big();
    if g != want_le {
        return Outcome::bad(class, mkv(F::NAME, "PrimeField::from_le_bytes_mod_order", case(), want_le.to_string(), g.to_string()));
    }
    let g = <F as PrimeField>::from_be_bytes_mod_order(bytes).big();
    if g != want_be {
        return Outcome::bad(class, mkv(F::NAME, "PrimeField::from_be_bytes_mod_order", case(), want_be.to_string(), g.to_string()));
    }
    let g = <F as From<BigUint>>::from(BigUint::from_bytes_le(bytes)).big();
    if g != want_le {
        return Outcome::bad(class, mkv(F::NAME, "From<BigUint>", case(), want_le.to_string(), g.to_string()));
    }
    Outcome::ok(class)
}

/// checked parsing of an exactly-N-byte string
pub fn eval_checked<F: FS>(fld: &Fld, v: &BigUint) -> Outcome {
    let n = F::NBYTES;
    let bytes = to_le_n(v, n);
    let canonical = *v < fld.p;
    let class = format!("{}/checked/{}", F::NAME, if canonical { "canonical" } else { "non-canonical" });
    let case = || json!({"field": F::NAME, "kind": "checked", "bytes": hex::encode(&bytes)});
    match (F::from_checked(&bytes), canonical) {
        (Ok(x), true) => {
            if x.big() != *v {
                return Outcome::bad(class, mkv(F::NAME, "from_bytes_checked", case(), v.to_string(), x.big().to_string()));
            }
            if x.to_le() != bytes || x.to_bytes2() != bytes {
                return Outcome::bad(class, mkv(F::NAME, "to_bytes/to_bytes_le", case(), hex::encode(&bytes), hex::encode(x.to_le())));
            }
        }
        (Err(_), false) => {}
        (got, _) => return Outcome::bad(class, mkv(F::NAME, "from_bytes_checked", case(), format!("accept = {canonical}"), format!("{:?}", got.map(|x| x.big().to_string())))),
    }
    Outcome::ok(class)
}

#[cfg(feature = "ark")]
pub fn eval_checked_ark<F, const N: usize>(fld: &Fld, v: &BigUint) -> Outcome
where
    F: FS + ark_ff::PrimeField<BigInt = ark_ff::BigInt<N>> + From<ark_ff::BigInt<N>>,
{
    use ark_ff::PrimeField;
    use ark_ec::models::{short_weierstrass::SWFlags, twisted_edwards::TEFlags};
    use ark_serialize::{CanonicalDeserialize, CanonicalDeserializeWithFlags, EmptyFlags};
    let n = F::NBYTES;
    let bytes = to_le_n(v, n);
    let canonical = *v < fld.p;
    let class = format!("{}/checked-ark/{}", F::NAME, if canonical { "canonical" } else { "non-canonical" });
    let case = || json!({"field": F::NAME, "kind": "checked_ark", "bytes": hex::encode(&bytes)});
    let limbs: [u64; N] = crate::sut::limbs_n(v, N).try_into().unwrap();
    let r = F::from_bigint(ark_ff::BigInt(limbs)).map(|x| x.big());
    if r != if canonical { Some(v.clone()) } else { None } {
        return Outcome::bad(class, mkv(F::NAME, "PrimeField::from_bigint", case(), format!("accept = {canonical}"), format!("{r:?}")));
    }
    let r = <F as From<ark_ff::BigInt<N>>>::from(ark_ff::BigInt(limbs)).big();
    if r != v % &fld.p {
        return Outcome::bad(class, mkv(F::NAME, "From<BigInt<N>>", case(), (v % &fld.p).to_string(), r.to_string()));
    }
    for (name, r) in [
        ("deserialize_compressed", F::deserialize_compressed(&bytes[..]).ok().map(|x| x.big())),
        ("deserialize_uncompressed", F::deserialize_uncompressed(&bytes[..]).ok().map(|x| x.big())),
        ("deserialize_compressed_unchecked", F::deserialize_compressed_unchecked(&bytes[..]).ok().map(|x| x.big())),
        ("deserialize_with_flags<EmptyFlags>", F::deserialize_with_flags::<_, EmptyFlags>(&bytes[..]).ok().map(|x| x.0.big())),
    ] {
        if r != if canonical { Some(v.clone()) } else { None } {
            return Outcome::bad(class, mkv(F::NAME, name, case(), format!("accept = {canonical}"), format!("{r:?}")));
        }
    }
    // flag-carrying parse: the spare top bits are flags; value = remaining bits
    let spare = n * 8 - fld.p.bits() as usize;
    let top = bytes[n - 1];
    {
        // TEFlags: 1 bit (bit 7)
        let fl_bits = top >> 7;
        let mut b2 = bytes.clone();
        b2[n - 1] &= 0x7f;
        let val = BigUint::from_bytes_le(&b2);
        let want = if val < fld.p { Some((val, fl_bits)) } else { None };
        let got = F::deserialize_with_flags::<_, TEFlags>(&bytes[..]).ok().map(|(x, f)| (x.big(), if f == TEFlags::XIsNegative { 1 } else { 0 }));
        if got != want {
            return Outcome::bad(class, mkv(F::NAME, "deserialize_with_flags<TEFlags>", case(), format!("{want:?}"), format!("{got:?}")));
        }
    }
    if spare >= 2 {
        // SWFlags: 2 bits (bits 7,6): 10 = YIsNegative, 01 = infinity, 00 = YIsPositive, 11 invalid
        let fl_bits = top >> 6;
        let mut b2 = bytes.clone();
        b2[n - 1] &= 0x3f;
        let val = BigUint::from_bytes_le(&b2);
        let want = if fl_bits == 3 || val >= fld.p { None } else { Some((val, fl_bits)) };
        let got = F::deserialize_with_flags::<_, SWFlags>(&bytes[..]).ok().map(|(x, f)| {
            (x.big(), match f {
                SWFlags::YIsNegative => 2,
                SWFlags::PointAtInfinity => 1,
                SWFlags::YIsPositive => 0,
            })
        });
        if got != want {
            return Outcome::bad(class, mkv(F::NAME, "deserialize_with_flags<SWFlags>", case(), format!("{want:?}"), format!("{got:?}")));
        }
    }
    Outcome::ok(class)
}

/// all round trips of one field element
pub fn eval_roundtrip<F: FS>(fld: &Fld, v: &BigUint) -> Outcome {
    let n = F::NBYTES;
    let x = F::of(v);
    let class = format!("{}/roundtrip", F::NAME);
    let case = || json!({"field": F::NAME, "kind": "roundtrip", "value": hexle(v, n)});
    let canon = to_le_n(v, n);
    if x.to_le() != canon || x.to_bytes2() != canon {
        return Outcome::bad(class, mkv(F::NAME, "to_bytes_le", case(), hex::encode(&canon), hex::encode(x.to_le())));
    }
    // Debug prints big-endian hex of the canonical value
    let mut be = canon.clone();
    be.reverse();
    let want_dbg = format!("{}(0x{})", F::NAME, hex::encode(&be));
    if format!("{x:?}") != want_dbg {
        return Outcome::bad(class, mkv(F::NAME, "Debug", case(), want_dbg, format!("{x:?}")));
    }
    // an equal value produced three other ways must be ==, hash equally, compare Equal
    let alias = {
        let mut b = (v + &fld.p).to_bytes_le();
        b.resize(n + 8, 0);
        F::from_le_mod(&b)
    };
    let arith = (x + F::one()) - F::one();
    let wide = F::from_le_mod(&{ let mut b = canon.clone(); b.extend_from_slice(&[0u8; 40]); b });
    for (name, y) in [("from_le_bytes_mod_order(v+p)", alias), ("(x+1)-1", arith), ("zero-extended bytes", wide)] {
        if !(x == y) || h64(&x) != h64(&y) || x.cmp(&y) != std::cmp::Ordering::Equal || x.partial_cmp(&y) != Some(std::cmp::Ordering::Equal) {
            return Outcome::bad(class, mkv(F::NAME, "Eq/Hash/Ord on equal values", case(), format!("equal to {name}"), format!("{y:?}")));
        }
    }
    Outcome::ok(class)
}

#[cfg(feature = "ark")]
pub fn eval_roundtrip_ark<F, const N: usize>(fld: &Fld, v: &BigUint) -> Outcome
where
    F: FS + ark_ff::PrimeField<BigInt = ark_ff::BigInt<N>> + Into<BigUint> + Into<ark_ff::BigInt<N>> + std::str::FromStr + std::fmt::Display,
{
    use ark_ff::PrimeField;
    use ark_ec::models::{short_weierstrass::SWFlags, twisted_edwards::TEFlags};
    use ark_serialize::{CanonicalDeserializeWithFlags, CanonicalSerialize, CanonicalSerializeWithFlags, EmptyFlags, Flags};
    let n = F::NBYTES;
    let x = F::of(v);
    let class = format!("{}/roundtrip-ark", F::NAME);
    let case = || json!({"field": F::NAME, "kind": "roundtrip_ark", "value": hexle(v, n)});
    let canon = to_le_n(v, n);
    let lim = crate::sut::limbs_n(v, N);
    if x.into_bigint().0[..] != lim[..] || <F as Into<ark_ff::BigInt<N>>>::into(x).0[..] != lim[..] {
        return Outcome::bad(class, mkv(F::NAME, "into_bigint", case(), format!("{lim:?}"), format!("{:?}", x.into_bigint().0)));
    }
    if <F as Into<BigUint>>::into(x) != *v {
        return Outcome::bad(class, mkv(F::NAME, "Into<BigUint>", case(), v.to_string(), <F as Into<BigUint>>::into(x).to_string()));
    }
    for (name, b) in [("serialize_compressed", { let mut b = vec![]; x.serialize_compressed(&mut b).unwrap(); b }), ("serialize_uncompressed", { let mut b = vec![]; x.serialize_uncompressed(&mut b).unwrap(); b })] {
        if b != canon {
            return Outcome::bad(class, mkv(F::NAME, name, case(), hex::encode(&canon), hex::encode(&b)));
        }
    }
    if x.compressed_size() != n || x.uncompressed_size() != n {
        return Outcome::bad(class, mkv(F::NAME, "serialized_size", case(), n.to_string(), x.compressed_size().to_string()));
    }
    // decimal strings
    let s = format!("{x}");
    let want_s = if v.is_zero() { String::new() } else { v.to_string() };
    if s != want_s {
        return Outcome::bad(class, mkv(F::NAME, "Display", case(), want_s, s));
    }
    match s.parse::<F>() {
        Ok(y) if y == x => {}
        other => return Outcome::bad(class, mkv(F::NAME, "FromStr(Display(x))", case(), v.to_string(), format!("{:?}", other.ok().map(|y| y.big().to_string())))),
    }
    match v.to_string().parse::<F>() {
        Ok(y) if y == x => {}
        other => return Outcome::bad(class, mkv(F::NAME, "FromStr(decimal)", case(), v.to_string(), format!("{:?}", other.ok().map(|y| y.big().to_string())))),
    }
    // flagged serialisation round-trips value and flags
    macro_rules! flags_rt {
        ($ty:ty, $vals:expr) => {
            for fl in $vals {
                let mut b = vec![];
                x.serialize_with_flags(&mut b, fl).unwrap();
                if b.len() != x.serialized_size_with_flags::<$ty>() {
                    return Outcome::bad(class, mkv(F::NAME, "serialized_size_with_flags", case(), x.serialized_size_with_flags::<$ty>().to_string(), b.len().to_string()));
                }
                match F::deserialize_with_flags::<_, $ty>(&b[..]) {
                    Ok((y, f2)) if y == x && f2 == fl => {}
                    other => return Outcome::bad(class, mkv(F::NAME, concat!("serialize_with_flags round trip ", stringify!($ty)), case(), format!("({v}, flag bits {:#04x})", fl.u8_bitmask()), format!("{:?}", other.map(|(y, f)| (y.big().to_string(), f.u8_bitmask())).ok()))),
                }
            }
        };
    }
    flags_rt!(EmptyFlags, [EmptyFlags]);
    flags_rt!(TEFlags, [TEFlags::XIsPositive, TEFlags::XIsNegative]);
    flags_rt!(SWFlags, [SWFlags::YIsPositive, SWFlags::YIsNegative, SWFlags::PointAtInfinity]);
    Outcome::ok(class)
}

pub fn eval_ord<F: FS>(a: &BigUint, b: &BigUint) -> Outcome {
    let (x, y) = (F::of(a), F::of(b));
    let class = format!("{}/ord/{:?}", F::NAME, a.cmp(b));
    let case = || json!({"field": F::NAME, "kind": "ord", "a": hexle(a, F::NBYTES), "b": hexle(b, F::NBYTES)});
    if x.cmp(&y) != a.cmp(b) || x.partial_cmp(&y) != Some(a.cmp(b)) || (x < y) != (a < b) || (x >= y) != (a >= b) {
        return Outcome::bad(class, mkv(F::NAME, "Ord", case(), format!("{:?}", a.cmp(b)), format!("{:?}", x.cmp(&y))));
    }
    if (x == y) != (a == b) {
        return Outcome::bad(class, mkv(F::NAME, "PartialEq", case(), format!("{}", a == b), format!("{}", x == y)));
    }
    if a == b && h64(&x) != h64(&y) {
        return Outcome::bad(class, mkv(F::NAME, "Hash", case(), "equal hashes".into(), "different".into()));
    }
    Outcome::ok(class)
}

fn near_values(p: &BigUint, nbytes: usize, quick: bool) -> Vec<BigUint> {
    let w = if quick { 1u32 << 8 } else { 1 << 10 };
    let lim = BigUint::one() << (8 * nbytes);
    let mut v: Vec<BigUint> = vec![];
    for d in 0..w {
        v.push(p - d);
        v.push(p + d);
        v.push(BigUint::from(d));
        v.push(&lim - 1u32 - d);
    }
    for k in 1..(8 * nbytes as u32) {
        let t = BigUint::one() << k;
        for d in 0..3u32 {
            v.push(&t - d);
            v.push(&t + d);
        }
    }
    // every pattern of the spare top bits on top of a few canonical values
    let bits = p.bits() as u32;
    for base in [BigUint::zero(), BigUint::one(), p - 1u32, (p - 1u32) >> 1, (BigUint::one() << (bits - 1)) - 1u32] {
        for hi in 0..(1u32 << (8 * nbytes as u32 - bits + 1)) {
            let x = &base % (BigUint::one() << (bits - 1)) + (BigUint::from(hi) << (bits - 1));
            if x < lim {
                v.push(x);
            }
        }
    }
    v.extend(cmp_family(p, nbytes));
    // aliases x = s + kp whose word-wise differences from s cancel under XOR (what a canonicity
    // comparison that folds word differences with ^ instead of | accepts); refmodel::foldfam
    for w in [64usize, 32] {
        if nbytes * 8 / w > 8 {
            continue;
        }
        for k in 1..=2u32 {
            let fam = refmodel::foldfam::xor_fold_collisions(&(p * k), nbytes, w, 4096, 0xC11);
            v.extend(fam.into_iter().filter(|(s, _)| s < p).take(64).map(|(_, x)| x));
        }
    }
    v.retain(|x| *x < lim);
    dedup(v)
}

fn run_field<F: FS>(ctx: &Arc<Ctx>) {
    let p = F::modulus();
    let fld = Fld::new(p.clone());
    let n = F::NBYTES;
    let mut strings: Vec<(&'static str, Vec<u8>)> = vec![];
    for len in 0..=200usize {
        strings.extend(contents(&p, n, len));
    }
    run_cases(ctx, "E3/C11-reduce", false, strings.par_iter().map(|(l, b)| (F::NAME, *l, b)), |(_, l, b)| eval_reduce::<F>(&fld, b, l), |(_, l, b)| (format!("{}|reduce", F::NAME), json!({"field": F::NAME, "kind": "reduce", "bytes": hex::encode(b), "content": l})));
    let near = near_values(&p, n, ctx.quick());
    run_cases(ctx, "E3/C11-checked", false, near.par_iter().map(|v| (F::NAME, v)), |(_, v)| eval_checked::<F>(&fld, v), |(_, v)| (format!("{}|checked", F::NAME), json!({"field": F::NAME, "kind": "checked", "bytes": hex::encode(to_le_n(v, n))})));
    let small = s_small(&p, n, !ctx.quick());
    let limb = s_limb(&p, n, &[0, 0xFFFF_FFFF]);
    let all: Vec<&BigUint> = small.iter().chain(limb.iter()).collect();
    run_cases(ctx, "E3/C11-roundtrip", false, all.par_iter().map(|v| (F::NAME, *v)), |(_, v)| eval_roundtrip::<F>(&fld, v), |(_, v)| (format!("{}|roundtrip", F::NAME), json!({"field": F::NAME, "kind": "roundtrip", "value": hexle(v, n)})));
    let ns = small.len();
    run_cases(ctx, "E3/C11-ord", false, (0..ns * ns).into_par_iter().map(|i| (F::NAME, i / ns, i % ns)), |&(_, i, j)| eval_ord::<F>(&small[i], &small[j]), |&(_, i, j)| (format!("{}|ord", F::NAME), json!({"field": F::NAME, "kind": "ord", "a": hexle(&small[i], n), "b": hexle(&small[j], n)})));
    ctx.report.set(&format!("C11_domain_{}", F::NAME), json!({"reduce_strings": strings.len(), "checked_values": near.len(), "roundtrip_values": all.len(), "ord_pairs": ns * ns}));
}

/// reader that hands over at most `step` bytes per `read` call
#[cfg(feature = "ark")]
pub struct Frag<'a>(pub &'a [u8], pub usize);
#[cfg(feature = "ark")]
impl<'a> ark_serialize::Read for Frag<'a> {
    fn read(&mut self, buf: &mut [u8]) -> std::io::Result<usize> {
        let n = buf.len().min(self.1).min(self.0.len());
        buf[..n].copy_from_slice(&self.0[..n]);
        self.0 = &self.0[n..];
        Ok(n)
    }
}

/// Stream shapes of the field deserialisers (environment answers of the reader, deviation-bounded):
/// the encoding delivered whole, in fragments of `step` bytes (a short `read` is a legal answer),
/// truncated after `cut` bytes (must be an error, never a value), or followed by trailing bytes
/// (exactly NBYTES must be consumed). shape: 0 = fragments(step), 1 = truncated(cut), 2 = trailing.
#[cfg(feature = "ark")]
pub fn eval_stream_ark<F>(fld: &Fld, v: &BigUint, shape: u8, par: usize) -> Outcome
where
    F: FS + ark_ff::PrimeField,
{
    use ark_serialize::{CanonicalDeserialize, CanonicalDeserializeWithFlags, EmptyFlags};
    let n = F::NBYTES;
    let bytes = to_le_n(v, n);
    let canonical = *v < fld.p;
    let class = format!("{}/stream/{}/{}", F::NAME, ["fragments", "truncated", "trailing"][shape as usize], if canonical { "canonical" } else { "non-canonical" });
    let case = || json!({"field": F::NAME, "kind": "stream_ark", "bytes": hex::encode(&bytes), "shape": shape, "par": par});
    let want_full = if canonical { Some(v.clone()) } else { None };
    match shape {
        0 => {
            for (name, r) in [
                ("deserialize_compressed", F::deserialize_compressed(Frag(&bytes, par)).ok().map(|x| x.big())),
                ("deserialize_uncompressed", F::deserialize_uncompressed(Frag(&bytes, par)).ok().map(|x| x.big())),
                ("deserialize_compressed_unchecked", F::deserialize_compressed_unchecked(Frag(&bytes, par)).ok().map(|x| x.big())),
                ("deserialize_with_flags<EmptyFlags>", F::deserialize_with_flags::<_, EmptyFlags>(Frag(&bytes, par)).ok().map(|x| x.0.big())),
            ] {
                if r != want_full {
                    return Outcome::bad(class, mkv(F::NAME, &format!("{name} from a reader yielding {par} bytes per read"), case(), format!("{want_full:?}"), format!("{r:?}")));
                }
            }
            // two elements back to back through one fragmented reader: both must come out right
            let mut two = bytes.clone();
            two.extend_from_slice(&bytes);
            let mut rd = Frag(&two, par);
            let a = F::deserialize_compressed(&mut rd).ok().map(|x| x.big());
            let b = if a.is_some() { F::deserialize_compressed(&mut rd).ok().map(|x| x.big()) } else { None };
            if a != want_full || b != want_full {
                return Outcome::bad(class, mkv(F::NAME, &format!("two consecutive elements from a reader yielding {par} bytes per read"), case(), format!("{want_full:?} twice"), format!("{a:?}, {b:?}")));
            }
        }
        1 => {
            let cut = par.min(n - 1);
            for (name, r) in [
                ("deserialize_compressed", F::deserialize_compressed(&bytes[..cut]).ok().map(|x| x.big())),
                ("deserialize_uncompressed", F::deserialize_uncompressed(&bytes[..cut]).ok().map(|x| x.big())),
                ("deserialize_with_flags<EmptyFlags>", F::deserialize_with_flags::<_, EmptyFlags>(&bytes[..cut]).ok().map(|x| x.0.big())),
            ] {
                if r.is_some() {
                    return Outcome::bad(class, mkv(F::NAME, &format!("{name} of a stream truncated after {cut} bytes"), case(), "error".into(), format!("{r:?}")));
                }
            }
        }
        _ => {
            let mut ext = bytes.clone();
            ext.extend_from_slice(&[0xA5; 7]);
            let mut rd = &ext[..];
            let r = F::deserialize_compressed(&mut rd).ok().map(|x| x.big());
            if r != want_full || (r.is_some() && rd.len() != 7) {
                return Outcome::bad(class, mkv(F::NAME, "deserialize_compressed with trailing bytes", case(), format!("{want_full:?}, 7 bytes left"), format!("{r:?}, {} bytes left", rd.len())));
            }
        }
    }
    Outcome::ok(class)
}

#[cfg(feature = "ark")]
fn run_field_ark<F, const N: usize>(ctx: &Arc<Ctx>)
where
    F: FS + ark_ff::PrimeField<BigInt = ark_ff::BigInt<N>> + From<BigUint> + From<ark_ff::BigInt<N>> + Into<BigUint> + Into<ark_ff::BigInt<N>> + std::str::FromStr + std::fmt::Display,
{
    let p = F::modulus();
    let fld = Fld::new(p.clone());
    let n = F::NBYTES;
    let mut strings: Vec<(&'static str, Vec<u8>)> = vec![];
    for len in 0..=200usize {
        strings.extend(contents(&p, n, len));
    }
    run_cases(ctx, "E3/C11-reduce-ark", false, strings.par_iter().map(|(l, b)| (F::NAME, *l, b)), |(_, l, b)| eval_reduce_ark::<F>(&fld, b, l), |(_, l, b)| (format!("{}|reduce_ark", F::NAME), json!({"field": F::NAME, "kind": "reduce_ark", "bytes": hex::encode(b), "content": l})));
    let near = near_values(&p, n, ctx.quick());
    run_cases(ctx, "E3/C11-checked-ark", false, near.par_iter().map(|v| (F::NAME, v)), |(_, v)| eval_checked_ark::<F, N>(&fld, v), |(_, v)| (format!("{}|checked_ark", F::NAME), json!({"field": F::NAME, "kind": "checked_ark", "bytes": hex::encode(to_le_n(v, n))})));
    // stream shapes: 12 values (canonical: dense, p-1, 0, top-limb-only ...; non-canonical: p, p+1,
    // all ones) x every fragment size 1..n, every truncation 0..n-1, trailing bytes
    {
        let lim = BigUint::one() << (8 * n);
        let dense = BigUint::from_bytes_le(&(0..n).map(|i| (0x31 + 7 * i) as u8).collect::<Vec<u8>>()) % &p;
        let vals: Vec<BigUint> = vec![dense.clone(), &p - 1u32, BigUint::zero(), BigUint::one(), (&p >> (8 * n - 16)) << (8 * n - 16), &dense >> 128usize, (&dense >> 128usize) << 128usize, (&p - 1u32) >> 1, p.clone(), &p + 1u32, &lim - 1u32, &dense + &p]
            .into_iter().filter(|x| *x < lim).collect();
        let mut work: Vec<(usize, u8, usize)> = vec![];
        for vi in 0..vals.len() {
            for step in 1..=n {
                work.push((vi, 0, step));
            }
            for cut in 0..n {
                work.push((vi, 1, cut));
            }
            work.push((vi, 2, 0));
        }
        run_cases(ctx, "E3/C11-stream-ark", false, work.par_iter().map(|w| (F::NAME, w.0, w.1, w.2)), |&(_, vi, sh, par)| eval_stream_ark::<F>(&fld, &vals[vi], sh, par), |&(_, vi, sh, par)| (format!("{}|stream_ark", F::NAME), json!({"field": F::NAME, "kind": "stream_ark", "bytes": hex::encode(to_le_n(&vals[vi], n)), "shape": sh, "par": par})));
    }
    let small = s_small(&p, n, !ctx.quick());
    let limb = s_limb(&p, n, &[0, 0xFFFF_FFFF]);
    let all: Vec<&BigUint> = small.iter().chain(limb.iter()).collect();
    run_cases(ctx, "E3/C11-roundtrip-ark", false, all.par_iter().map(|v| (F::NAME, *v)), |(_, v)| eval_roundtrip_ark::<F, N>(&fld, v), |(_, v)| (format!("{}|roundtrip_ark", F::NAME), json!({"field": F::NAME, "kind": "roundtrip_ark", "value": hexle(v, n)})));
}

pub fn run(ctx: &Arc<Ctx>) {
    use decaf377::{Fp, Fq, Fr};
    run_field::<Fq>(ctx);
    run_field::<Fr>(ctx);
    run_field::<Fp>(ctx);
    #[cfg(feature = "ark")]
    {
        run_field_ark::<Fq, 4>(ctx);
        run_field_ark::<Fr, 4>(ctx);
        run_field_ark::<Fp, 6>(ctx);
    }
    ctx.report.rule(format!("E3/C11[{BUILD}]: per field: every length 0..=200 x 9 contents through the reducing parsers (LE{}); all N-byte values within 2^8 (quick) / 2^10 (thorough) of 0, p, 2^(8N), 2^k+-2 for every k, and every pattern of the spare top bits, through the checked parsers{}; aliases s+kp whose word differences cancel under xor; stream shapes of the deserialisers (every fragment size, every truncation, trailing bytes; arkworks build); all round trips on S_small + limb patterns; Ord/Eq/Hash on S_small^2; oracle = the integer the bytes denote", if cfg!(feature = "ark") { ", BE, From<BigUint>" } else { "" }, if cfg!(feature = "ark") { " (from_bytes_checked, from_bigint, From<BigInt>, deserialize_*, deserialize_with_flags<EmptyFlags|TEFlags|SWFlags>)" } else { " (from_bytes_checked)" }));
    ctx.report.assume("C11: Display prints zero as the empty string (arkworks quirk mirrored by the crate); it round-trips through FromStr and is not treated as a violation");
}

pub fn replay(case: &Value) -> (bool, Value) {
    use decaf377::{Fp, Fq, Fr};
    let hx = |v: &Value| hex::decode(v.as_str().unwrap_or("")).unwrap_or_default();
    let field = case["field"].as_str().unwrap_or("");
    let kind = case["kind"].as_str().unwrap_or("");
    macro_rules! go {
        ($F:ty, $N:expr) => {{
            let fld = Fld::new(<$F as FS>::modulus());
            match kind {
                "reduce" => Some(eval_reduce::<$F>(&fld, &hx(&case["bytes"]), "replay")),
                "checked" => Some(eval_checked::<$F>(&fld, &BigUint::from_bytes_le(&hx(&case["bytes"])))),
                "roundtrip" => Some(eval_roundtrip::<$F>(&fld, &BigUint::from_bytes_le(&hx(&case["value"])))),
                "ord" => Some(eval_ord::<$F>(&BigUint::from_bytes_le(&hx(&case["a"])), &BigUint::from_bytes_le(&hx(&case["b"])))),
                #[cfg(feature = "ark")]
                "reduce_ark" => Some(eval_reduce_ark::<$F>(&fld, &hx(&case["bytes"]), "replay")),
                #[cfg(feature = "ark")]
                "checked_ark" => Some(eval_checked_ark::<$F, $N>(&fld, &BigUint::from_bytes_le(&hx(&case["bytes"])))),
                #[cfg(feature = "ark")]
                "stream_ark" => Some(eval_stream_ark::<$F>(&fld, &BigUint::from_bytes_le(&hx(&case["bytes"])), case["shape"].as_u64().unwrap_or(0) as u8, case["par"].as_u64().unwrap_or(1) as usize)),
                #[cfg(feature = "ark")]
                "roundtrip_ark" => Some(eval_roundtrip_ark::<$F, $N>(&fld, &BigUint::from_bytes_le(&hx(&case["value"])))),
                _ => None,
            }
        }};
    }
    let o: Option<Outcome> = match field {
        "Fq" => go!(Fq, 4),
        "Fr" => go!(Fr, 4),
        _ => go!(Fp, 6),
    };
    match o {
        Some(o) => match o.viol {
            Some(v) => (false, json!({"what": v.key, "expected": v.expected, "got": v.got})),
            None => (true, json!({"result": "consistent with the integer semantics"})),
        },
        None => (false, json!({"error": "cannot parse replay case"})),
    }
}
