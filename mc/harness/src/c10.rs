//! C10 -- field arithmetic is exact arithmetic mod p (three fields, the backend of this build).
//! E3 operand grids over every operator/method form + E1 accumulator chains.
use crate::bfs::run_bfs;
use crate::core::*;
use crate::fields::*;
use num_bigint::BigUint;
use num_traits::{One, Zero};
use rayon::prelude::*;
use refmodel::fld::{from_limbs, Fld};
use serde_json::{json, Value};
use stateright::{Model, Property};
use std::sync::atomic::Ordering;
use std::sync::Arc;

fn mk_viol(field: &str, kind: &str, form: &str, case: Value, expected: String, got: String) -> Viol {
    Viol { key: format!("C10|{field}|{kind}|{form}"), engine: "E3/C10".into(), case, expected, got }
}

pub fn eval_bin<F: FS>(fld: &Fld, form: &BinForm<F>, a: &BigUint, fa: F, b: &BigUint, fb: F, binv: Option<&Option<BigUint>>) -> Outcome {
    let n = F::NBYTES;
    let want = match if form.op == '/' && binv.is_some() { binv.unwrap().as_ref().map(|i| fld.mul(a, i)) } else { ref_bin(fld, form.op, a, b) } {
        Some(w) => w,
        None => return Outcome::trivial(format!("{}/div-by-zero-excluded", F::NAME)),
    };
    let got = (form.f)(fa, fb).big();
    let wrap = match form.op {
        '+' => if a + b >= fld.p { "wrap" } else { "nowrap" },
        '-' => if a < b { "borrow" } else { "noborrow" },
        '*' => if (a * b) >= fld.p { "reduce" } else { "noreduce" },
        _ => "div",
    };
    let class = format!("{}/{}/{}", F::NAME, form.op, wrap);
    if got != want {
        let case = json!({"field": F::NAME, "kind": "bin", "form": form.name, "a": hexle(a, n), "b": hexle(b, n)});
        return Outcome::bad(class, mk_viol(F::NAME, "bin", form.name, case, hexle(&want, n), hex::encode(got.to_bytes_le())));
    }
    Outcome::ok(class)
}

pub fn eval_un<F: FS>(fld: &Fld, form: &UnForm<F>, a: &BigUint, fa: F) -> Outcome {
    let n = F::NBYTES;
    let want = ref_un(fld, form.op, a);
    let got = (form.f)(fa).map(|x| x.big());
    let class = format!("{}/{}/{}", F::NAME, form.op, if a.is_zero() { "zero" } else { "nonzero" });
    if got != want {
        let case = json!({"field": F::NAME, "kind": "un", "form": form.name, "a": hexle(a, n)});
        return Outcome::bad(class, mk_viol(F::NAME, "un", form.name, case, format!("{:?}", want.map(|w| hexle(&w, n))), format!("{:?}", got.map(|g| hexle(&g, n)))));
    }
    Outcome::ok(class)
}

/// the four iterator folds
pub const FOLDS: [&str; 8] = ["Sum<Self>", "Sum<&Self>", "Product<Self>", "Product<&Self>", "Sum<Self> via filter", "Sum<&Self> via filter", "Product<Self> via skip_while", "Product<&Self> via rev+chain"];
pub fn eval_fold<F: FS>(fld: &Fld, which: usize, list: &[BigUint]) -> Outcome {
    let n = F::NBYTES;
    let fl: Vec<F> = list.iter().map(F::of).collect();
    let got = match which {
        0 => fl.clone().into_iter().sum::<F>(),
        1 => fl.iter().sum::<F>(),
        2 => fl.clone().into_iter().product::<F>(),
        3 => fl.iter().product::<F>(),
        4 => fl.clone().into_iter().filter(|_| true).sum::<F>(),
        5 => fl.iter().filter(|_| true).sum::<F>(),
        6 => fl.clone().into_iter().skip_while(|_| false).product::<F>(),
        _ => {
            let e: [F; 0] = [];
            fl.iter().rev().chain(e.iter()).product::<F>()
        }
    }
    .big();
    let want = if which < 2 || which == 4 || which == 5 { list.iter().fold(BigUint::zero(), |acc, x| fld.add(&acc, x)) } else { list.iter().fold(BigUint::one(), |acc, x| fld.mul(&acc, x)) };
    let class = format!("{}/{}/len{}", F::NAME, FOLDS[which], list.len());
    if got != want {
        let case = json!({"field": F::NAME, "kind": "fold", "form": FOLDS[which], "list": list.iter().map(|x| hexle(x, n)).collect::<Vec<_>>()});
        return Outcome::bad(class, mk_viol(F::NAME, "fold", FOLDS[which], case, hexle(&want, n), hexle(&got, n)));
    }
    Outcome::ok(class)
}

pub const FROMS: [&str; 6] = ["From<u128>", "From<u64>", "From<u32>", "From<u16>", "From<u8>", "From<bool>"];
pub fn eval_from<F: FS>(fld: &Fld, which: usize, val: u128) -> Outcome {
    let n = F::NBYTES;
    let (got, v) = match which {
        0 => (F::from(val), val),
        1 => (F::from(val as u64), val as u64 as u128),
        2 => (F::from(val as u32), val as u32 as u128),
        3 => (F::from(val as u16), val as u16 as u128),
        4 => (F::from(val as u8), val as u8 as u128),
        _ => (F::from(val & 1 == 1), val & 1),
    };
    let want = BigUint::from(v) % &fld.p;
    let class = format!("{}/{}", F::NAME, FROMS[which]);
    if got.big() != want {
        let case = json!({"field": F::NAME, "kind": "from", "form": FROMS[which], "val": val.to_string()});
        return Outcome::bad(class, mk_viol(F::NAME, "from", FROMS[which], case, hexle(&want, n), hexle(&got.big(), n)));
    }
    // Default is zero, PartialEq / Ord reflexive on the value
    if F::default().big() != BigUint::zero() {
        let case = json!({"field": F::NAME, "kind": "from", "form": "Default"});
        return Outcome::bad(class, mk_viol(F::NAME, "from", "Default", case, "0".into(), "nonzero".into()));
    }
    Outcome::ok(class)
}

// ---- Fq-only API (both builds): power, conditional_select, ct_eq
pub fn eval_power(fld: &Fld, base: &BigUint, exp: &[u64]) -> Outcome {
    use decaf377::Fq;
    let got = Fq::of(base).power(exp).big();
    let want = fld.pow(base, &from_limbs(exp));
    let class = format!("Fq/power/limbs{}", exp.len());
    if got != want {
        let case = json!({"field": "Fq", "kind": "power", "form": "Fq::power", "a": hexle(base, 32), "exp": exp.iter().map(|x| x.to_string()).collect::<Vec<_>>()});
        return Outcome::bad(class, mk_viol("Fq", "power", "Fq::power", case, hexle(&want, 32), hexle(&got, 32)));
    }
    Outcome::ok(class)
}
pub fn eval_select(a: &BigUint, b: &BigUint, choice: u8) -> Outcome {
    use decaf377::Fq;
    use subtle::{Choice, ConditionallySelectable, ConstantTimeEq};
    let (fa, fb) = (Fq::of(a), Fq::of(b));
    let got = Fq::conditional_select(&fa, &fb, Choice::from(choice));
    let want = if choice == 1 { b } else { a };
    let class = format!("Fq/conditional_select/{choice}");
    let case = json!({"field": "Fq", "kind": "select", "form": "conditional_select", "a": hexle(a, 32), "b": hexle(b, 32), "choice": choice});
    if got.big() != *want || !(got == if choice == 1 { fb } else { fa }) {
        return Outcome::bad(class, mk_viol("Fq", "select", "conditional_select", case, hexle(want, 32), hex::encode(got.to_bytes_le())));
    }
    // conditional_assign / conditional_swap are provided methods built on select
    let mut x = fa;
    x.conditional_assign(&fb, Choice::from(choice));
    if x.big() != *want {
        return Outcome::bad(class, mk_viol("Fq", "select", "conditional_assign", case, hexle(want, 32), hexle(&x.big(), 32)));
    }
    let eq: bool = fa.ct_eq(&fb).into();
    if eq != (a == b) {
        return Outcome::bad("Fq/ct_eq", mk_viol("Fq", "select", "ct_eq", case, format!("{}", a == b), format!("{eq}")));
    }
    if (fa == fb) != (a == b) || (fa != fb) != (a != b) {
        return Outcome::bad("Fq/eq", mk_viol("Fq", "select", "PartialEq", case, format!("{}", a == b), format!("{}", fa == fb)));
    }
    Outcome::ok(class)
}

// ---- arkworks Field-trait methods
#[cfg(feature = "ark")]
pub const ARK_UN: [&str; 8] = ["Field::double", "Field::double_in_place", "Field::neg_in_place", "Field::square", "Field::square_in_place", "Field::inverse", "Field::inverse_in_place", "Field::frobenius_map"];
#[cfg(feature = "ark")]
pub fn eval_ark_un<F: FS + ark_ff::Field>(fld: &Fld, which: usize, a: &BigUint) -> Outcome {
    use ark_ff::Field;
    let n = F::NBYTES;
    let fa = F::of(a);
    let (got, want): (Option<BigUint>, Option<BigUint>) = match which {
        0 => (Some(Field::double(&fa).big()), Some(fld.add(a, a))),
        1 => { let mut x = fa; x.double_in_place(); (Some(x.big()), Some(fld.add(a, a))) }
        2 => { let mut x = fa; x.neg_in_place(); (Some(x.big()), Some(fld.neg(a))) }
        3 => (Some(Field::square(&fa).big()), Some(fld.sqr(a))),
        4 => { let mut x = fa; x.square_in_place(); (Some(x.big()), Some(fld.sqr(a))) }
        5 => (Field::inverse(&fa).map(|x| x.big()), fld.inv(a)),
        6 => { let mut x = fa; let r = x.inverse_in_place().map(|y| y.big()); if r.is_none() && x.big() != *a { (Some(x.big()), None) } else { (r, fld.inv(a)) } }
        _ => (Some(fa.frobenius_map(3).big()), Some(a.clone())),
    };
    let class = format!("{}/{}", F::NAME, ARK_UN[which]);
    if got != want {
        let case = json!({"field": F::NAME, "kind": "ark_un", "form": ARK_UN[which], "a": hexle(a, n)});
        return Outcome::bad(class, mk_viol(F::NAME, "ark_un", ARK_UN[which], case, format!("{:?}", want.map(|w| hexle(&w, n))), format!("{:?}", got.map(|g| hexle(&g, n)))));
    }
    Outcome::ok(class)
}
#[cfg(feature = "ark")]
pub fn eval_ark_pow<F: FS + ark_ff::Field>(fld: &Fld, base: &BigUint, exp: &[u64]) -> Outcome {
    let n = F::NBYTES;
    let got = ark_ff::Field::pow(&F::of(base), exp).big();
    let want = fld.pow(base, &from_limbs(exp));
    let class = format!("{}/Field::pow/limbs{}", F::NAME, exp.len());
    if got != want {
        let case = json!({"field": F::NAME, "kind": "ark_pow", "form": "Field::pow", "a": hexle(base, n), "exp": exp.iter().map(|x| x.to_string()).collect::<Vec<_>>()});
        return Outcome::bad(class, mk_viol(F::NAME, "ark_pow", "Field::pow", case, hexle(&want, n), hexle(&got, n)));
    }
    Outcome::ok(class)
}
#[cfg(feature = "ark")]
pub fn eval_ark_sop<F: FS + ark_ff::Field>(fld: &Fld, l: &[BigUint; 4]) -> Outcome {
    let n = F::NBYTES;
    let a = [F::of(&l[0]), F::of(&l[1])];
    let b = [F::of(&l[2]), F::of(&l[3])];
    let got = <F as ark_ff::Field>::sum_of_products(&a, &b).big();
    let want = fld.add(&fld.mul(&l[0], &l[2]), &fld.mul(&l[1], &l[3]));
    let class = format!("{}/Field::sum_of_products", F::NAME);
    if got != want {
        let case = json!({"field": F::NAME, "kind": "ark_sop", "form": "sum_of_products", "list": l.iter().map(|x| hexle(x, n)).collect::<Vec<_>>()});
        return Outcome::bad(class, mk_viol(F::NAME, "ark_sop", "sum_of_products", case, hexle(&want, n), hexle(&got, n)));
    }
    Outcome::ok(class)
}

pub fn exp_slices(p: &BigUint) -> Vec<Vec<u64>> {
    let mut v: Vec<Vec<u64>> = vec![vec![], vec![0], vec![1], vec![2], vec![5], vec![65537], vec![0, 0], vec![1, 0], vec![0, 1], vec![1, 1], vec![3, 0, 2], vec![u64::MAX], vec![u64::MAX, u64::MAX], vec![0, 0, 0, 1], vec![1 << 63]];
    let lim = |x: &BigUint| -> Vec<u64> {
        let b = x.to_bytes_le();
        let nl = (b.len() + 7) / 8;
        crate::sut::limbs_n(x, nl.max(1))
    };
    v.push(lim(&(p - 1u32)));
    v.push(lim(&(p - 2u32)));
    v.push(lim(&((p - 1u32) >> 1)));
    v.push(lim(p));
    let mut l5 = lim(&(p - 1u32));
    l5.push(1);
    v.push(l5);
    v
}

// -------------------------------------------------------------------------------------------
// accumulator chains (E1 on a field value)

#[derive(Clone, PartialEq, Eq, Hash, Debug)]
pub struct FSt {
    depth: u8,
    v: Vec<u8>,
    bad: bool,
}
#[derive(Clone, Copy, PartialEq, Eq, Debug)]
pub struct FAct {
    op: u8,
    o: u8,
}
pub struct Chain<F: FS> {
    fld: Fld,
    ops: Vec<(&'static str, char, fn(F, F) -> Option<F>)>,
    operands: Vec<BigUint>,
    seeds: Vec<BigUint>,
    max_depth: u8,
}
impl<F: FS> Chain<F> {
    fn new(max_depth: u8) -> Self {
        let p = F::modulus();
        let fld = Fld::new(p.clone());
        let one = BigUint::one();
        let nb = F::NBYTES as u64 * 8;
        let r32 = (&one << (((p.bits() + 31) / 32) * 32)) % &p;
        let operands = dedup(vec![
            BigUint::zero(), one.clone(), BigUint::from(2u32), &p - 1u32, &p - 2u32, (&p - 1u32) >> 1, (&p + 1u32) >> 1,
            r32.clone(), fld.sqr(&r32), ((&one << (nb - 1)) - &one) % &p, ((&one << 64) - &one) % &p, BigUint::from(0xFFFF_FFFFu64), BigUint::from(3021u32),
        ]);
        let seeds = vec![BigUint::zero(), one.clone(), &p - 1u32, BigUint::from(7u32), r32];
        let mut ops: Vec<(&'static str, char, fn(F, F) -> Option<F>)> = vec![];
        ops.push(("s+=&o", '+', |mut s, o| { s += &o; Some(s) }));
        ops.push(("o+s", '+', |s, o| Some(o + s)));
        ops.push(("s-=o", '-', |mut s, o| { s -= o; Some(s) }));
        ops.push(("o-&s", 'r', |s, o| Some(o - &s)));
        ops.push(("s*=&mut o", '*', |mut s, mut o| { s *= &mut o; Some(s) }));
        ops.push(("s*s*o", 'q', |s, o| Some(s * s * o)));
        ops.push(("s/&o", '/', |s, o| if o == F::zero() { None } else { Some(s / &o) }));
        ops.push(("o/=s", 'v', |s, mut o| if s == F::zero() { None } else { o /= s; Some(o) }));
        ops.push(("-s+o", 'n', |s, o| Some(-s + o)));
        ops.push(("s.inverse()+o", 'i', |s, o| s.i_inverse().map(|x| x + o)));
        ops.push(("s.square()-o", 's', |s, o| Some(s.i_square() - o)));
        Chain { fld, ops, operands, seeds, max_depth }
    }
    fn model(&self, op: char, s: &BigUint, o: &BigUint) -> Option<BigUint> {
        let f = &self.fld;
        Some(match op {
            '+' => f.add(s, o),
            '-' => f.sub(s, o),
            'r' => f.sub(o, s),
            '*' => f.mul(s, o),
            'q' => f.mul(&f.sqr(s), o),
            '/' => f.mul(s, &f.inv(o)?),
            'v' => f.mul(o, &f.inv(s)?),
            'n' => f.add(&f.neg(s), o),
            'i' => f.add(&f.inv(s)?, o),
            's' => f.sub(&f.sqr(s), o),
            _ => unreachable!(),
        })
    }
}
impl<F: FS> Model for Chain<F> {
    type State = FSt;
    type Action = FAct;
    fn init_states(&self) -> Vec<FSt> {
        self.seeds.iter().map(|s| FSt { depth: 0, v: F::of(s).to_le(), bad: false }).collect()
    }
    fn actions(&self, s: &FSt, out: &mut Vec<FAct>) {
        if s.bad || s.depth >= self.max_depth {
            return;
        }
        for op in 0..self.ops.len() as u8 {
            for o in 0..self.operands.len() as u8 {
                out.push(FAct { op, o });
            }
        }
    }
    fn next_state(&self, s: &FSt, a: FAct) -> Option<FSt> {
        let (_, mop, f) = self.ops[a.op as usize];
        let sb = BigUint::from_bytes_le(&s.v);
        let ob = &self.operands[a.o as usize];
        let want = self.model(mop, &sb, ob);
        let got = guarded(|| f(F::of(&sb), F::of(ob)));
        match (got, want) {
            (Ok(Some(g)), Some(w)) => Some(FSt { depth: s.depth + 1, bad: g.big() != w, v: g.to_le() }),
            (Ok(None), None) => None,
            (Ok(Some(g)), None) => Some(FSt { depth: s.depth + 1, bad: true, v: g.to_le() }),
            (Ok(None), Some(_)) => Some(FSt { depth: s.depth + 1, bad: true, v: vec![0xEE] }),
            (Err(_), _) => Some(FSt { depth: s.depth + 1, bad: true, v: vec![0xEF] }),
        }
    }
    fn properties(&self) -> Vec<Property<Self>> {
        vec![Property::always("C10:chain_conforms", |_, s: &FSt| !s.bad)]
    }
}

fn run_chain<F: FS>(ctx: &Arc<Ctx>) {
    let depth = ctx.t(2u8, 3u8);
    let ch = Chain::<F>::new(depth);
    let (stats, disc) = run_bfs(&ch);
    let r = &ctx.report;
    r.states.fetch_add(stats.unique, Ordering::Relaxed);
    r.transitions.fetch_add(stats.generated, Ordering::Relaxed);
    r.traces.fetch_add(stats.generated, Ordering::Relaxed);
    r.distinct_extra.fetch_add(stats.unique, Ordering::Relaxed);
    r.set(&format!("chain_{}", F::NAME), json!({"depth": depth, "states_per_depth": stats.per_depth, "ops": ch.ops.len(), "operands": ch.operands.len()}));
    for d in disc {
        let acts: Vec<Value> = d.actions.iter().map(|a| json!({"op": ch.ops[a.op as usize].0, "o": hexle(&ch.operands[a.o as usize], F::NBYTES)})).collect();
        let seed = hex::encode(&d.states[0].v);
        ctx.violation(Viol {
            key: format!("C10|{}|chain|{}", F::NAME, acts.last().map(|a| a["op"].to_string()).unwrap_or_default()),
            engine: "E1/C10-chain".into(),
            case: json!({"field": F::NAME, "kind": "chain", "seed": seed, "actions": acts}),
            expected: "value equal to BigUint arithmetic mod p after every step".into(),
            got: format!("final bytes {}", hex::encode(&d.states.last().unwrap().v)),
        });
    }
    r.sample(&format!("chain/{}", F::NAME), || json!({"field": F::NAME, "seed": "0", "actions": [{"op": ch.ops[0].0, "o": hexle(&ch.operands[1], F::NBYTES)}, {"op": ch.ops[6].0, "o": hexle(&ch.operands[3], F::NBYTES)}]}));
}

pub fn replay_chain<F: FS>(case: &Value) -> (bool, Value) {
    let ch = Chain::<F>::new(255);
    let mut sb = BigUint::from_bytes_le(&hex::decode(case["seed"].as_str().unwrap_or("")).unwrap_or_default());
    let mut trace = vec![];
    let mut ok = true;
    for a in case["actions"].as_array().cloned().unwrap_or_default() {
        let opn = a["op"].as_str().unwrap_or("");
        let (name, mop, f) = match ch.ops.iter().find(|o| o.0 == opn) {
            Some(o) => *o,
            None => return (false, json!({"error": "unknown op"})),
        };
        let ob = BigUint::from_bytes_le(&hex::decode(a["o"].as_str().unwrap_or("")).unwrap_or_default());
        let want = ch.model(mop, &sb, &ob);
        let got = guarded(|| f(F::of(&sb), F::of(&ob))).ok().flatten().map(|g| g.big());
        let good = got == want;
        trace.push(json!({"op": name, "expected": want.as_ref().map(|w| hexle(w, F::NBYTES)), "got": got.as_ref().map(|g| hexle(g, F::NBYTES)), "ok": good}));
        ok &= good;
        match got {
            Some(g) => sb = g,
            None => break,
        }
    }
    (ok, Value::Array(trace))
}

// -------------------------------------------------------------------------------------------

fn run_field<F: FS>(ctx: &Arc<Ctx>) {
    let p = F::modulus();
    let fld = Fld::new(p.clone());
    let n = F::NBYTES;
    let small = s_small(&p, n, !ctx.quick());
    let limb = if ctx.quick() {
        // every limb in {0, 2^32-1} plus single-limb variants of {1, 2^31}
        let mut v = s_limb(&p, n, &[0, 0xFFFF_FFFF]);
        for i in 0..(n / 4) {
            for pat in [1u32, 0x8000_0000] {
                let mut b = vec![0u8; n];
                b[4 * i..4 * i + 4].copy_from_slice(&pat.to_le_bytes());
                v.push(BigUint::from_bytes_le(&b) % &p);
                let mut b = vec![0xFFu8; n];
                b[4 * i..4 * i + 4].copy_from_slice(&pat.to_le_bytes());
                v.push(BigUint::from_bytes_le(&b) % &p);
            }
        }
        dedup(v)
    } else if n == 32 {
        s_limb(&p, n, &[0, 1, 0x8000_0000, 0xFFFF_FFFF])
    } else {
        s_limb(&p, n, &[0, 1, 0xFFFF_FFFF])
    };
    let small_f: Vec<F> = small.iter().map(F::of).collect();
    let limb_f: Vec<F> = limb.iter().map(F::of).collect();
    let small_inv: Vec<Option<BigUint>> = small.par_iter().map(|x| fld.inv(x)).collect();
    let limb_inv: Vec<Option<BigUint>> = limb.par_iter().map(|x| fld.inv(x)).collect();
    let bforms = bin_forms::<F>();
    let uforms = un_forms::<F>();
    let r = &ctx.report;
    r.set(&format!("domain_{}", F::NAME), json!({"S_small": small.len(), "S_limb": limb.len(), "binary_forms": bforms.len(), "unary_forms": uforms.len()}));

    // 1. every binary form on S_small x S_small
    let (ns, nf) = (small.len(), bforms.len());
    run_cases(
        ctx, "E3/C10-bin-small", false,
        (0..ns * ns * nf).into_par_iter().map(|i| (F::NAME, i / (ns * ns), (i / ns) % ns, i % ns)),
        |&(_, fi, ai, bi)| eval_bin(&fld, &bforms[fi], &small[ai], small_f[ai], &small[bi], small_f[bi], Some(&small_inv[bi])),
        |&(_, fi, ai, bi)| (format!("{}|{}", F::NAME, bforms[fi].name), json!({"field": F::NAME, "kind": "bin", "form": bforms[fi].name, "a": hexle(&small[ai], n), "b": hexle(&small[bi], n)})),
    );
    // 2. S_limb x partners
    let partners: Vec<usize> = {
        let want = [BigUint::zero(), BigUint::one(), &p - 1u32, (&p - 1u32) >> 1, BigUint::from(2u32), &p - 2u32];
        let mut v: Vec<usize> = want.iter().filter_map(|w| small.iter().position(|x| x == w)).collect();
        // + Montgomery R (32-bit words) and two limb-pattern values
        v.push(small.len() - 1);
        v.push(small.len() / 2);
        v
    };
    let forms2: Vec<usize> = if ctx.quick() || n == 48 { vec![0, 7, 14, 21, 4, 12, 20, 26] } else { (0..nf).collect() };
    let (nl, np, nf2) = (limb.len(), partners.len(), forms2.len());
    run_cases(
        ctx, "E3/C10-bin-limb", false,
        (0..nl * np * nf2 * 2).into_par_iter().map(|i| (F::NAME, i % 2, forms2[(i / 2) % nf2], (i / 2 / nf2) % np, i / 2 / nf2 / np)),
        |&(_, swap, fi, pi, li)| {
            let (a, fa, b, fb) = (&limb[li], limb_f[li], &small[partners[pi]], small_f[partners[pi]]);
            if swap == 0 { eval_bin(&fld, &bforms[fi], a, fa, b, fb, Some(&small_inv[partners[pi]])) } else { eval_bin(&fld, &bforms[fi], b, fb, a, fa, Some(&limb_inv[li])) }
        },
        |&(_, swap, fi, pi, li)| {
            let (a, b) = if swap == 0 { (&limb[li], &small[partners[pi]]) } else { (&small[partners[pi]], &limb[li]) };
            (format!("{}|{}", F::NAME, bforms[fi].name), json!({"field": F::NAME, "kind": "bin", "form": bforms[fi].name, "a": hexle(a, n), "b": hexle(b, n)}))
        },
    );
    // 2b. Montgomery-domain limb patterns: x = m * R^-1 mod p, so that the INTERNAL representation
    // of x is the limb pattern m (R = 2^(8*NBYTES) for both word sizes). Additions and
    // subtractions act limb-wise on that representation, so these pairs drive every carry /
    // borrow chain, including the conditional add-back / subtract of the modulus.
    {
        // quick: level-0 patterns squared; thorough: level 1 (2^(n/4) patterns) x level 0, and for
        // the 32-byte fields level 2 (3^8) x level 0
        let b_vals: Vec<BigUint> = mont_patterns(&p, n, 0);
        let a_vals: Vec<BigUint> = if ctx.quick() { b_vals.clone() } else { mont_patterns(&p, n, if n == 32 { 2 } else { 1 }) };
        let a_f: Vec<F> = a_vals.iter().map(F::of).collect();
        let b_f: Vec<F> = b_vals.iter().map(F::of).collect();
        let b_inv: Vec<Option<BigUint>> = b_vals.par_iter().map(|x| fld.inv(x)).collect();
        let fsel = [0usize, 7, 14, 21, 3, 10, 17];
        let (na, nb, nfs) = (a_vals.len(), b_vals.len(), fsel.len());
        run_cases(
            ctx, "E3/C10-bin-montgomery-patterns", false,
            (0..na * nb * nfs).into_par_iter().map(|i| (F::NAME, fsel[i % nfs], (i / nfs) % nb, i / nfs / nb)),
            |&(_, fi, bi, ai)| eval_bin(&fld, &bforms[fi], &a_vals[ai], a_f[ai], &b_vals[bi], b_f[bi], Some(&b_inv[bi])),
            |&(_, fi, bi, ai)| (format!("{}|{}", F::NAME, bforms[fi].name), json!({"field": F::NAME, "kind": "bin", "form": bforms[fi].name, "a": hexle(&a_vals[ai], n), "b": hexle(&b_vals[bi], n)})),
        );
        let nu = uforms.len();
        run_cases(
            ctx, "E3/C10-un-montgomery-patterns", false,
            (0..na * nu).into_par_iter().map(|i| (F::NAME, i % nu, i / nu)),
            |&(_, fi, ai)| eval_un(&fld, &uforms[fi], &a_vals[ai], a_f[ai]),
            |&(_, fi, ai)| (format!("{}|{}", F::NAME, uforms[fi].name), json!({"field": F::NAME, "kind": "un", "form": uforms[fi].name, "a": hexle(&a_vals[ai], n)})),
        );
        r.set(&format!("domain_montgomery_{}", F::NAME), json!({"patterns_a": na, "patterns_b": nb, "forms": nfs}));
    }
    // 2c. boundary classes of limb-wise comparison / negation with p (values whose limbs equal
    // p's above some position): every unary form, and every binary form against 4 partners
    {
        // ... plus operands with LONG trajectories of the divstep iteration that drives the 32-bit
        // backend's inversion for a fixed number of steps (refmodel::divstep): a, a*R and a/R, so
        // that the iteration sees the long trajectory whichever domain it is started in
        let lt = refmodel::divstep::long_trajectory_family(&p, if ctx.quick() { 256 } else { 1024 }, 16);
        let rr = BigUint::one() << (8 * n);
        let rinv = fld.inv(&(&rr % &p)).unwrap();
        let lt_vals: Vec<BigUint> = lt.iter().flat_map(|(a, _)| vec![a.clone(), fld.mul(a, &rr), fld.mul(a, &rinv)]).collect();
        r.set(&format!("domain_divstep_{}", F::NAME), json!({"operands": lt_vals.len(), "steps_max": lt.first().map(|x| x.1), "steps_min": lt.last().map(|x| x.1), "typical_steps": refmodel::divstep::steps_needed(&p, &(&p / 3u32))}));
        // ... and the same comparison / borrow classes imposed on the INTERNAL representation:
        // x = m/R with m a limb-wise neighbour of p or of (p-1)/2 (reduction steps of hand-written
        // double / add / neg compare the Montgomery limbs, not the canonical value)
        let cf_mont: Vec<BigUint> = target_family(&p, n).into_iter().filter(|m| *m < p).map(|m| fld.mul(&m, &rinv)).collect();
        let cf_half_mont: Vec<BigUint> = {
            // m with 2m in the classes: m = t/2 for t in the family (t even) and (t + p)/2 (t odd)
            target_family(&p, n).into_iter().filter(|t| *t < p).map(|t| if t.bit(0) { (&t + &p) >> 1 } else { t >> 1 }).map(|m| fld.mul(&m, &rinv)).collect()
        };
        r.set(&format!("domain_montgomery_classes_{}", F::NAME), json!({"values": cf_mont.len() + cf_half_mont.len()}));
        let cf: Vec<BigUint> = dedup(cmp_family(&p, n).into_iter().filter(|x| *x < p).chain(neg_family(&p, n)).chain(lt_vals).chain(cf_mont).chain(cf_half_mont).collect());
        let cf_f: Vec<F> = cf.iter().map(F::of).collect();
        let (nc, nu) = (cf.len(), uforms.len());
        run_cases(
            ctx, "E3/C10-un-cmp-family", false,
            (0..nc * nu).into_par_iter().map(|i| (F::NAME, i % nu, i / nu)),
            |&(_, fi, ai)| eval_un(&fld, &uforms[fi], &cf[ai], cf_f[ai]),
            |&(_, fi, ai)| (format!("{}|{}", F::NAME, uforms[fi].name), json!({"field": F::NAME, "kind": "un", "form": uforms[fi].name, "a": hexle(&cf[ai], n)})),
        );
        let part = [0usize, 1, 2, small.len() - 1];
        run_cases(
            ctx, "E3/C10-bin-cmp-family", false,
            (0..nc * nf * part.len() * 2).into_par_iter().map(|i| (F::NAME, i % 2, (i / 2) % nf, (i / 2 / nf) % part.len(), i / 2 / nf / part.len())),
            |&(_, swap, fi, pi, ai)| {
                let (b, fb) = (&small[part[pi]], small_f[part[pi]]);
                if swap == 0 { eval_bin(&fld, &bforms[fi], &cf[ai], cf_f[ai], b, fb, Some(&small_inv[part[pi]])) } else { eval_bin(&fld, &bforms[fi], b, fb, &cf[ai], cf_f[ai], None) }
            },
            |&(_, swap, fi, pi, ai)| {
                let (a, b) = if swap == 0 { (&cf[ai], &small[part[pi]]) } else { (&small[part[pi]], &cf[ai]) };
                (format!("{}|{}", F::NAME, bforms[fi].name), json!({"field": F::NAME, "kind": "bin", "form": bforms[fi].name, "a": hexle(a, n), "b": hexle(b, n)}))
            },
        );
    }
    // 3. unary forms on S_small + S_limb
    let all: Vec<(&BigUint, F)> = small.iter().zip(small_f.iter().copied()).chain(limb.iter().zip(limb_f.iter().copied())).collect();
    let na = all.len();
    run_cases(
        ctx, "E3/C10-un", false,
        (0..na * uforms.len()).into_par_iter().map(|i| (F::NAME, i / na, i % na)),
        |&(_, fi, ai)| eval_un(&fld, &uforms[fi], all[ai].0, all[ai].1),
        |&(_, fi, ai)| (format!("{}|{}", F::NAME, uforms[fi].name), json!({"field": F::NAME, "kind": "un", "form": uforms[fi].name, "a": hexle(all[ai].0, n)})),
    );
    // 4. iterator folds on all lists of length 0..=3 over 8 values
    let lv: Vec<BigUint> = vec![BigUint::zero(), BigUint::one(), BigUint::from(2u32), &p - 1u32, (&p + 1u32) >> 1, small[small.len() - 1].clone(), BigUint::from(0xFFFF_FFFFu64), &p - 3u32];
    let mut lists: Vec<Vec<usize>> = vec![vec![]];
    for a in 0..8 {
        lists.push(vec![a]);
        for b in 0..8 {
            lists.push(vec![a, b]);
            for c in 0..8 {
                lists.push(vec![a, b, c]);
            }
        }
    }
    run_cases(
        ctx, "E3/C10-fold", false,
        (0..lists.len() * 8).into_par_iter().map(|i| (F::NAME, i % 8, i / 8)),
        |&(_, w, li)| eval_fold::<F>(&fld, w, &lists[li].iter().map(|&i| lv[i].clone()).collect::<Vec<_>>()),
        |&(_, w, li)| (format!("{}|{}", F::NAME, FOLDS[w]), json!({"field": F::NAME, "kind": "fold", "form": FOLDS[w], "list": lists[li].iter().map(|&i| hexle(&lv[i], n)).collect::<Vec<_>>()})),
    );
    // 5. From<uN>
    let mut uvals: Vec<u128> = vec![0, 1, 2, 255, 256, 65535, 65536, u32::MAX as u128, (u32::MAX as u128) + 1, u64::MAX as u128, (u64::MAX as u128) + 1, u128::MAX, u128::MAX - 1];
    for k in 0..128 {
        uvals.push(1u128 << k);
    }
    run_cases(
        ctx, "E3/C10-from", false,
        (0..uvals.len() * 6).into_par_iter().map(|i| (F::NAME, i % 6, uvals[i / 6])),
        |&(_, w, v)| eval_from::<F>(&fld, w, v),
        |&(_, w, v)| (format!("{}|{}", F::NAME, FROMS[w]), json!({"field": F::NAME, "kind": "from", "form": FROMS[w], "val": v.to_string()})),
    );
    r.rule(format!("E3/C10[{}:{}]: {} binary forms on S_small^2 ({}^2) and on S_limb ({}) x {} partners both orders, {} unary forms on S_small+S_limb, 4 iterator folds on all lists of length 0..3 over 8 values, 6 From<uN> x {} values; Montgomery-domain limb patterns (pairs x 7 forms, all unary forms); comparison / borrow boundary classes and operands with long divstep trajectories (a, aR, a/R) through every unary form and every binary form x 4 partners; non-trivial = every case except division by zero; distinct by (engine, form, operands)", BUILD, F::NAME, nf, ns, nl, np, uforms.len(), uvals.len()));
}

#[cfg(feature = "ark")]
fn run_field_ark<F: FS + ark_ff::Field>(ctx: &Arc<Ctx>) {
    let p = F::modulus();
    let fld = Fld::new(p.clone());
    let n = F::NBYTES;
    let small0 = s_small(&p, n, !ctx.quick());
    // operands of the trait-level unary forms: S_small, limb patterns, Montgomery-domain limb
    // patterns, and the comparison / borrow classes on the canonical value AND on the internal
    // representation (m and 2m limb-wise neighbours of p and of (p-1)/2)
    let small: Vec<BigUint> = {
        let rinv = fld.inv(&((BigUint::one() << (8 * n)) % &p)).unwrap();
        let tf: Vec<BigUint> = target_family(&p, n).into_iter().filter(|t| *t < p).collect();
        let mut v = small0.clone();
        v.extend(s_limb(&p, n, &[0, 0xFFFF_FFFF]));
        v.extend(mont_patterns(&p, n, 0));
        v.extend(tf.iter().cloned());
        v.extend(tf.iter().map(|m| fld.mul(m, &rinv)));
        v.extend(tf.iter().map(|t| if t.bit(0) { (t + &p) >> 1 } else { t >> 1 }).map(|m| fld.mul(&m, &rinv)));
        dedup(v)
    };
    let na = small.len();
    run_cases(
        ctx, "E3/C10-ark-un", false,
        (0..na * ARK_UN.len()).into_par_iter().map(|i| (F::NAME, i / na, i % na)),
        |&(_, w, ai)| eval_ark_un::<F>(&fld, w, &small[ai]),
        |&(_, w, ai)| (format!("{}|{}", F::NAME, ARK_UN[w]), json!({"field": F::NAME, "kind": "ark_un", "form": ARK_UN[w], "a": hexle(&small[ai], n)})),
    );
    let exps = exp_slices(&p);
    let bases: Vec<BigUint> = vec![BigUint::zero(), BigUint::one(), BigUint::from(2u32), &p - 1u32, BigUint::from(3021u32), small0[small0.len() - 2].clone()];
    run_cases(
        ctx, "E3/C10-ark-pow", true,
        (0..bases.len() * exps.len()).into_par_iter().map(|i| (F::NAME, i % bases.len(), i / bases.len())),
        |&(_, bi, ei)| eval_ark_pow::<F>(&fld, &bases[bi], &exps[ei]),
        |&(_, bi, ei)| (format!("{}|Field::pow", F::NAME), json!({"field": F::NAME, "kind": "ark_pow", "form": "Field::pow", "a": hexle(&bases[bi], n), "exp": exps[ei].iter().map(|x| x.to_string()).collect::<Vec<_>>()})),
    );
    let sv: Vec<BigUint> = vec![BigUint::zero(), BigUint::one(), &p - 1u32, (&p - 1u32) >> 1, small[small.len() - 1].clone(), BigUint::from(0xFFFF_FFFF_FFFF_FFFFu64)];
    let k = sv.len();
    run_cases(
        ctx, "E3/C10-ark-sop", false,
        (0..k * k * k * k).into_par_iter().map(|i| (F::NAME, i)),
        |&(_, i)| eval_ark_sop::<F>(&fld, &[sv[i % k].clone(), sv[(i / k) % k].clone(), sv[(i / k / k) % k].clone(), sv[i / k / k / k].clone()]),
        |&(_, i)| (format!("{}|sum_of_products", F::NAME), json!({"field": F::NAME, "kind": "ark_sop", "form": "sum_of_products", "list": [hexle(&sv[i % k], n), hexle(&sv[(i / k) % k], n), hexle(&sv[(i / k / k) % k], n), hexle(&sv[i / k / k / k], n)]})),
    );
}

fn run_fq_only(ctx: &Arc<Ctx>) {
    use decaf377::Fq;
    let p = Fq::modulus();
    let fld = Fld::new(p.clone());
    let small = s_small(&p, 32, false);
    let ns = small.len();
    run_cases(
        ctx, "E3/C10-select", false,
        (0..ns * ns * 2).into_par_iter().map(|i| ("Fq", i % 2, (i / 2) % ns, i / 2 / ns)),
        |&(_, c, ai, bi)| eval_select(&small[ai], &small[bi], c as u8),
        |&(_, c, ai, bi)| ("Fq|conditional_select".to_string(), json!({"field": "Fq", "kind": "select", "form": "conditional_select", "a": hexle(&small[ai], 32), "b": hexle(&small[bi], 32), "choice": c})),
    );
    // select / ct_eq / == on Montgomery-domain limb patterns (internal limbs that agree except
    // in one position)
    let mp = mont_patterns(&p, 32, if ctx.quick() { 0 } else { 1 });
    let nm = mp.len();
    run_cases(
        ctx, "E3/C10-select-montgomery-patterns", false,
        (0..nm * nm * 2).into_par_iter().map(|i| ("Fq", i % 2, (i / 2) % nm, i / 2 / nm)),
        |&(_, c, ai, bi)| eval_select(&mp[ai], &mp[bi], c as u8),
        |&(_, c, ai, bi)| ("Fq|conditional_select".to_string(), json!({"field": "Fq", "kind": "select", "form": "conditional_select", "a": hexle(&mp[ai], 32), "b": hexle(&mp[bi], 32), "choice": c})),
    );
    // power LAST: on a tree where it loops exp[0] times the watchdog ends the run
    let exps = exp_slices(&p);
    let bases: Vec<BigUint> = vec![BigUint::zero(), BigUint::one(), BigUint::from(2u32), &p - 1u32, BigUint::from(3021u32), small[small.len() - 2].clone()];
    run_cases(
        ctx, "E3/C10-power", true,
        (0..bases.len() * exps.len()).into_par_iter().map(|i| ("Fq", i % bases.len(), i / bases.len())),
        |&(_, bi, ei)| eval_power(&fld, &bases[bi], &exps[ei]),
        |&(_, bi, ei)| ("Fq|Fq::power".to_string(), json!({"field": "Fq", "kind": "power", "form": "Fq::power", "a": hexle(&bases[bi], 32), "exp": exps[ei].iter().map(|x| x.to_string()).collect::<Vec<_>>()})),
    );
}

pub fn run(ctx: &Arc<Ctx>) {
    use decaf377::{Fp, Fq, Fr};
    run_field::<Fq>(ctx);
    run_field::<Fr>(ctx);
    run_field::<Fp>(ctx);
    #[cfg(feature = "ark")]
    {
        run_field_ark::<Fq>(ctx);
        run_field_ark::<Fr>(ctx);
        run_field_ark::<Fp>(ctx);
    }
    run_chain::<Fq>(ctx);
    run_chain::<Fr>(ctx);
    run_chain::<Fp>(ctx);
    run_fq_only(ctx);
    ctx.report.assume("C10: division by zero and the documented-undefined SENTINEL value are excluded; operands are structured families, not all of [0,p)");
}

// -------------------------------------------------------------------------------------------
// replay

fn hx(v: &Value) -> BigUint {
    BigUint::from_bytes_le(&hex::decode(v.as_str().unwrap_or("")).unwrap_or_default())
}
fn replay_f<F: FS>(case: &Value) -> Option<Outcome> {
    let fld = Fld::new(F::modulus());
    let form = case["form"].as_str().unwrap_or("");
    Some(match case["kind"].as_str()? {
        "bin" => {
            let forms = bin_forms::<F>();
            let f = forms.iter().find(|f| f.name == form)?;
            let (a, b) = (hx(&case["a"]), hx(&case["b"]));
            eval_bin(&fld, f, &a, F::of(&a), &b, F::of(&b), None)
        }
        "un" => {
            let forms = un_forms::<F>();
            let f = forms.iter().find(|f| f.name == form)?;
            let a = hx(&case["a"]);
            eval_un(&fld, f, &a, F::of(&a))
        }
        "fold" => {
            let w = FOLDS.iter().position(|x| *x == form)?;
            let l: Vec<BigUint> = case["list"].as_array()?.iter().map(hx).collect();
            eval_fold::<F>(&fld, w, &l)
        }
        "from" => {
            let w = FROMS.iter().position(|x| *x == form).unwrap_or(0);
            eval_from::<F>(&fld, w, case["val"].as_str()?.parse().ok()?)
        }
        _ => return None,
    })
}
#[cfg(feature = "ark")]
fn replay_ark<F: FS + ark_ff::Field>(case: &Value) -> Option<Outcome> {
    let fld = Fld::new(F::modulus());
    let form = case["form"].as_str().unwrap_or("");
    let exp = || -> Vec<u64> { case["exp"].as_array().map(|a| a.iter().filter_map(|x| x.as_str()?.parse().ok()).collect()).unwrap_or_default() };
    Some(match case["kind"].as_str()? {
        "ark_un" => eval_ark_un::<F>(&fld, ARK_UN.iter().position(|x| *x == form)?, &hx(&case["a"])),
        "ark_pow" => eval_ark_pow::<F>(&fld, &hx(&case["a"]), &exp()),
        "ark_sop" => {
            let l: Vec<BigUint> = case["list"].as_array()?.iter().map(hx).collect();
            eval_ark_sop::<F>(&fld, &[l[0].clone(), l[1].clone(), l[2].clone(), l[3].clone()])
        }
        _ => return None,
    })
}
pub fn replay(case: &Value) -> (bool, Value) {
    use decaf377::{Fp, Fq, Fr};
    let field = case["field"].as_str().unwrap_or("");
    let kind = case["kind"].as_str().unwrap_or("");
    if kind == "chain" {
        return match field {
            "Fq" => replay_chain::<Fq>(case),
            "Fr" => replay_chain::<Fr>(case),
            _ => replay_chain::<Fp>(case),
        };
    }
    let exp = || -> Vec<u64> { case["exp"].as_array().map(|a| a.iter().filter_map(|x| x.as_str()?.parse().ok()).collect()).unwrap_or_default() };
    let out: Option<Outcome> = match kind {
        "power" => Some(eval_power(&Fld::new(Fq::modulus()), &hx(&case["a"]), &exp())),
        "select" => Some(eval_select(&hx(&case["a"]), &hx(&case["b"]), case["choice"].as_u64().unwrap_or(0) as u8)),
        #[cfg(feature = "ark")]
        "ark_un" | "ark_pow" | "ark_sop" => match field {
            "Fq" => replay_ark::<Fq>(case),
            "Fr" => replay_ark::<Fr>(case),
            _ => replay_ark::<Fp>(case),
        },
        _ => match field {
            "Fq" => replay_f::<Fq>(case),
            "Fr" => replay_f::<Fr>(case),
            _ => replay_f::<Fp>(case),
        },
    };
    match out {
        Some(o) => match o.viol {
            Some(v) => (false, json!({"class": o.class, "expected": v.expected, "got": v.got})),
            None => (true, json!({"class": o.class, "result": "matches the reference"})),
        },
        None => (false, json!({"error": "cannot parse replay case"})),
    }
}
