//! C15 -- circuit shape is input-independent and matches the pinned Groth16 keys.
use crate::c13::Env;
use crate::core::*;
use crate::r1cs_util::*;
use crate::sut::*;
use ark_ff::{One as _, Zero as _};
use ark_groth16::{r1cs_to_qap::LibsnarkReduction, Groth16, ProvingKey, VerifyingKey};
use ark_relations::r1cs::{ConstraintSynthesizer, ConstraintSystemRef, SynthesisError, SynthesisMode, ToConstraintField};
use ark_serialize::CanonicalDeserialize;
use ark_snark::SNARK;
use decaf377::Bls12_377;
use num_bigint::BigUint;
use rayon::prelude::*;
use refmodel::fld::{to32, u};
use serde_json::{json, Value};
use std::collections::BTreeMap;
use std::sync::{Arc, Mutex};

type SR<T> = Result<T, SynthesisError>;

// ---- the seven pinned circuits, copied from /repo/tests/groth16_gadgets.rs -------------------

#[derive(Clone)]
pub enum Circuit {
    DiscreteLog { scalar: [u8; 32], public: Element },
    Compression { point: Element, field_element: Fq },
    Decompression { field_element: Fq, point: Element },
    Elligator { field_element: Fq, point: Element },
    PublicElementInput { point: Element },
    Negation { pos: Element, public_neg: Element },
    AddAssignAdd { a: Element, b: Element, c: Element, d: Element },
}
pub const CIRCUITS: [&str; 7] = ["discrete_log", "compression", "decompression", "elligator", "public_element_input", "negation", "add_assign_add"];

impl Circuit {
    pub fn name(&self) -> &'static str {
        match self {
            Circuit::DiscreteLog { .. } => "discrete_log",
            Circuit::Compression { .. } => "compression",
            Circuit::Decompression { .. } => "decompression",
            Circuit::Elligator { .. } => "elligator",
            Circuit::PublicElementInput { .. } => "public_element_input",
            Circuit::Negation { .. } => "negation",
            Circuit::AddAssignAdd { .. } => "add_assign_add",
        }
    }
    /// what the verifier computes from the statement
    pub fn public_inputs(&self) -> Vec<Fq> {
        match self {
            Circuit::DiscreteLog { public, .. } => public.to_field_elements().unwrap(),
            Circuit::Compression { field_element, .. } => vec![*field_element],
            Circuit::Decompression { point, .. } => point.to_field_elements().unwrap(),
            Circuit::Elligator { point, .. } => point.to_field_elements().unwrap(),
            Circuit::PublicElementInput { point } => point.to_field_elements().unwrap(),
            Circuit::Negation { public_neg, .. } => public_neg.to_field_elements().unwrap(),
            Circuit::AddAssignAdd { c, d, .. } => {
                let mut v = c.to_field_elements().unwrap();
                v.extend_from_slice(&d.to_field_elements().unwrap());
                v
            }
        }
    }
}

impl ConstraintSynthesizer<Fq> for Circuit {
    fn generate_constraints(self, cs: ConstraintSystemRef<Fq>) -> SR<()> {
        match self {
            Circuit::DiscreteLog { scalar, public } => {
                let witness_vars = UInt8::new_witness_vec(cs.clone(), &scalar)?;
                let compressed_public = public.vartime_compress_to_field();
                let public_var: ElementVar = AllocVar::new_input(cs.clone(), || Ok(compressed_public))?;
                let basepoint_var = ElementVar::new_constant(cs, Element::GENERATOR)?;
                let test_public = basepoint_var.scalar_mul_le(witness_vars.to_bits_le()?.iter())?;
                public_var.enforce_equal(&test_public)?;
            }
            Circuit::Compression { point, field_element } => {
                let witness_var = ElementVar::new_witness(cs.clone(), || Ok(point))?;
                let public_var = FqVar::new_input(cs, || Ok(field_element))?;
                let test_public = witness_var.compress_to_field()?;
                public_var.enforce_equal(&test_public)?;
            }
            Circuit::Decompression { field_element, point } => {
                let witness_var = FqVar::new_witness(cs.clone(), || Ok(field_element))?;
                let compressed_public = point.vartime_compress_to_field();
                let public_var: ElementVar = AllocVar::new_input(cs, || Ok(compressed_public))?;
                let test_public = ElementVar::decompress_from_field(witness_var)?;
                public_var.enforce_equal(&test_public)?;
            }
            Circuit::Elligator { field_element, point } => {
                let witness_var = FqVar::new_witness(cs.clone(), || Ok(field_element))?;
                let public_var: ElementVar = AllocVar::new_input(cs, || Ok(point))?;
                let test_public = ElementVar::encode_to_curve(&witness_var)?;
                public_var.enforce_equal(&test_public)?;
            }
            Circuit::PublicElementInput { point } => {
                let _public_var: ElementVar = AllocVar::new_input(cs, || Ok(point))?;
            }
            Circuit::Negation { pos, public_neg } => {
                let pos = ElementVar::new_witness(cs.clone(), || Ok(pos))?;
                let public_neg = ElementVar::new_input(cs, || Ok(public_neg))?;
                let neg: ElementVar = pos.negate()?;
                neg.enforce_equal(&public_neg)?;
            }
            Circuit::AddAssignAdd { a, b, c, d } => {
                let a = ElementVar::new_witness(cs.clone(), || Ok(a))?;
                let b = ElementVar::new_witness(cs.clone(), || Ok(b))?;
                let c_pub = ElementVar::new_input(cs.clone(), || Ok(c))?;
                let c_add = a.clone() + b.clone();
                let mut c_add_assign = a.clone();
                c_add_assign += b.clone();
                c_add.enforce_equal(&c_pub)?;
                c_add_assign.enforce_equal(&c_pub)?;
                let d_pub = ElementVar::new_input(cs, || Ok(d))?;
                let d_sub = a.clone() - b.clone();
                let mut d_sub_assign = a.clone();
                d_sub_assign -= b;
                d_sub.enforce_equal(&d_pub)?;
                d_sub_assign.enforce_equal(&d_pub)?;
            }
        }
        Ok(())
    }
}

/// honest instances of circuit `ci` from structured witnesses
pub fn instances(env: &Env, ci: usize, n: usize) -> Vec<(String, Circuit)> {
    let els = &env.els;
    let pick: Vec<usize> = (0..els.len()).collect();
    let mut v: Vec<(String, Circuit)> = vec![];
    match ci {
        0 => {
            let r = &env.dc.r;
            let mut ks: Vec<(String, BigUint)> = vec![("0".into(), u(0)), ("1".into(), u(1)), ("2".into(), u(2)), ("r-1".into(), r - 1u32), ("(r+1)/2".into(), (r + 1u32) >> 1), ("r".into(), r.clone()), ("r+5".into(), r + 5u32), ("2^256-1".into(), (BigUint::from(1u8) << 256) - 1u32)];
            for i in 0..n {
                ks.push((format!("2^{}", 8 * i + 3), BigUint::from(1u8) << (8 * i + 3) as u32 % 256));
            }
            for (nm, k) in ks.into_iter().take(n.max(8)) {
                let scalar = to32(&k);
                let public = Fr::from_le_bytes_mod_order(&scalar) * Element::GENERATOR;
                v.push((format!("scalar={nm}"), Circuit::DiscreteLog { scalar, public }));
            }
        }
        1 => {
            for &i in pick.iter().take(n) {
                v.push((els[i].0.clone(), Circuit::Compression { point: els[i].1, field_element: els[i].1.vartime_compress_to_field() }));
            }
        }
        2 => {
            for (nm, s, ok) in env.encs.iter().filter(|e| e.2).take(n) {
                let _ = ok;
                let e = Encoding(to32(s)).vartime_decompress().unwrap();
                v.push((format!("s={nm}"), Circuit::Decompression { field_element: fq(s), point: e }));
            }
        }
        3 => {
            for (nm, x) in env.fqs.iter().take(n) {
                let fx = fq(x);
                v.push((format!("r0={nm}"), Circuit::Elligator { field_element: fx, point: Element::encode_to_curve(&fx) }));
            }
        }
        4 => {
            for &i in pick.iter().take(n) {
                v.push((els[i].0.clone(), Circuit::PublicElementInput { point: els[i].1 }));
            }
        }
        5 => {
            for &i in pick.iter().take(n) {
                v.push((els[i].0.clone(), Circuit::Negation { pos: els[i].1, public_neg: els[i].1.negate() }));
            }
        }
        _ => {
            // coinciding operands first (a == b as elements: identical, and the other representative)
            for k in 0..3usize.min(n) {
                let a = els[(k * 2 + 1) % els.len()].1;
                let b = if k % 2 == 0 { a } else { -(-a) + Element::IDENTITY };
                v.push((format!("{} , same element", els[(k * 2 + 1) % els.len()].0), Circuit::AddAssignAdd { a, b, c: a + b, d: a - b }));
            }
            for k in 0..n.saturating_sub(3) {
                let (a, b) = (els[k % els.len()].1, els[(k * 7 + 3) % els.len()].1);
                v.push((format!("{} , {}", els[k % els.len()].0, els[(k * 7 + 3) % els.len()].0), Circuit::AddAssignAdd { a, b, c: a + b, d: a - b }));
            }
        }
    }
    v
}

// ---- shape targets: individual gadgets ------------------------------------------------------

pub struct Shape {
    pub name: &'static str,
    /// number of distinct inputs
    pub n: fn(&Env) -> usize,
    pub f: fn(&Env, usize, &ConstraintSystemRef<Fq>) -> SR<()>,
}

pub fn shapes() -> Vec<Shape> {
    let mut v: Vec<Shape> = vec![];
    macro_rules! sh {
        ($n:expr, $cnt:expr, $f:expr) => {
            v.push(Shape { name: $n, n: $cnt, f: $f });
        };
    }
    sh!("compress_to_field(witness Element)", |e| e.els.len(), |e, i, cs| { ElementVar::new_witness(cs.clone(), || Ok(e.els[i].1))?.compress_to_field()?; Ok(()) });
    sh!("decompress_from_field(witness Fq)", |e| e.encs.len(), |e, i, cs| { ElementVar::decompress_from_field(FqVar::new_witness(cs.clone(), || Ok(fq(&e.encs[i].1)))?)?; Ok(()) });
    sh!("encode_to_curve(witness Fq)", |e| e.fqs.len(), |e, i, cs| { ElementVar::encode_to_curve(&FqVar::new_witness(cs.clone(), || Ok(fq(&e.fqs[i].1)))?)?; Ok(()) });
    sh!("new_witness(Element)", |e| e.els.len(), |e, i, cs| { ElementVar::new_witness(cs.clone(), || Ok(e.els[i].1))?; Ok(()) });
    sh!("new_input(Element)", |e| e.els.len(), |e, i, cs| { ElementVar::new_input(cs.clone(), || Ok(e.els[i].1))?; Ok(()) });
    sh!("new_input(Element) forced", |e| e.els.len(), |e, i, cs| { ElementVar::new_input(cs.clone(), || Ok(e.els[i].1))?.negate()?; Ok(()) });
    sh!("a + b, a - b (witnesses)", |e| e.els.len(), |e, i, cs| {
        let a = ElementVar::new_witness(cs.clone(), || Ok(e.els[i].1))?;
        let b = ElementVar::new_witness(cs.clone(), || Ok(e.els[(i * 5 + 1) % e.els.len()].1))?;
        let _ = a.clone() + b.clone();
        let _ = a - b;
        Ok(())
    });
    sh!("a += b, a -= b, a + &b, a - &b (b equal to a for every other input)", |e| e.els.len() * 2, |e, i, cs| {
        let n = e.els.len();
        let a = ElementVar::new_witness(cs.clone(), || Ok(e.els[i % n].1))?;
        // second half of the inputs: b is the SAME element as a (value-dependent shortcuts such as
        // "use doubling when the operands coincide" would show as a different shape)
        let bval = if i >= n { e.els[i % n].1 } else { e.els[(i * 5 + 1) % n].1 };
        let b = ElementVar::new_witness(cs.clone(), || Ok(bval))?;
        let mut x = a.clone();
        x += b.clone();
        let mut y = a.clone();
        y -= b.clone();
        let mut z = a.clone();
        z += &b;
        let mut w = a.clone();
        w -= &b;
        let _ = a.clone() + &b;
        let _ = a.clone() - &b;
        Ok(())
    });
    sh!("negate, double_in_place", |e| e.els.len(), |e, i, cs| {
        let mut a = ElementVar::new_witness(cs.clone(), || Ok(e.els[i].1))?;
        let _ = a.negate()?;
        a.double_in_place()?;
        Ok(())
    });
    sh!("is_eq, enforce_equal, conditionally_select", |e| e.els.len(), |e, i, cs| {
        let a = ElementVar::new_witness(cs.clone(), || Ok(e.els[i].1))?;
        let b = ElementVar::new_witness(cs.clone(), || Ok(e.els[(i * 3 + 2) % e.els.len()].1))?;
        let c = a.is_eq(&b)?;
        let s = ElementVar::conditionally_select(&c, &a, &b)?;
        s.conditional_enforce_equal(&a, &c)?;
        Ok(())
    });
    sh!("conditionally_select over lazily decoded operands (new_input / AllocVar<Fq>), witness condition", |e| e.els.len() * 2, |e, i, cs| {
        let n = e.els.len();
        let a = ElementVar::new_input(cs.clone(), || Ok(e.els[i % n].1))?;
        let b = <ElementVar as AllocVar<Fq, Fq>>::new_witness(cs.clone(), || Ok(e.els[(i * 3 + 1) % n].1.vartime_compress_to_field()))?;
        let c = Boolean::new_witness(cs.clone(), || Ok(i >= n))?;
        let s1 = ElementVar::conditionally_select(&c, &a, &b)?;
        let s2 = ElementVar::conditionally_select(&c.not(), &a, &b)?;
        s1.enforce_not_equal(&s2).ok();
        Ok(())
    });
    sh!("negate / a - b / is_eq over lazily decoded operands", |e| e.els.len(), |e, i, cs| {
        let n = e.els.len();
        let a = ElementVar::new_input(cs.clone(), || Ok(e.els[i].1))?;
        let b = ElementVar::new_input(cs.clone(), || Ok(e.els[(i * 7 + 2) % n].1))?;
        let _ = a.negate()?;
        let _ = a.clone() - b.clone();
        let _ = a.is_eq(&b)?;
        Ok(())
    });
    sh!("scalar_mul_le (witness bits)", |e| e.els.len().min(12) * e.scalars.len(), |e, i, cs| {
        let a = ElementVar::new_witness(cs.clone(), || Ok(e.els[i % e.els.len().min(12)].1))?;
        let k = &e.scalars[i / e.els.len().min(12)].1;
        let bits: Vec<Boolean<Fq>> = (0..256).map(|j| Boolean::new_witness(cs.clone(), || Ok(k.bit(j)))).collect::<SR<Vec<_>>>()?;
        a.scalar_mul_le(bits.iter())?;
        Ok(())
    });
    sh!("isqrt, abs, is_negative (witness Fq)", |e| e.fqs.len(), |e, i, cs| {
        let x = FqVar::new_witness(cs.clone(), || Ok(fq(&e.fqs[i].1)))?;
        let _ = x.isqrt()?;
        let _ = x.clone().abs()?;
        let _ = x.is_negative()?;
        Ok(())
    });
    v
}

fn rng(seed: u64) -> Rng15 {
    Rng15(crate::c06::Scripted { script: vec![], pos: 0, ctr: seed ^ 0xC15C15, draws: 0, plain_counter: false })
}
pub struct Rng15(crate::c06::Scripted);
impl ark_std::rand::RngCore for Rng15 {
    fn next_u32(&mut self) -> u32 {
        self.0.next_u32()
    }
    fn next_u64(&mut self) -> u64 {
        self.0.next_u64()
    }
    fn fill_bytes(&mut self, d: &mut [u8]) {
        self.0.fill_bytes(d)
    }
    fn try_fill_bytes(&mut self, d: &mut [u8]) -> Result<(), ark_std::rand::Error> {
        self.0.try_fill_bytes(d)
    }
}
impl ark_std::rand::CryptoRng for Rng15 {}

pub fn run(ctx: &Arc<Ctx>) {
    let env = Env::new();
    let r = &ctx.report;
    // (1) gadget shapes across inputs x {Setup, Prove}
    let shs = shapes();
    let mut cases: Vec<(usize, usize, usize)> = vec![];
    for (si, s) in shs.iter().enumerate() {
        for i in 0..(s.n)(&env) {
            for m in 0..2 {
                cases.push((si, i, m));
            }
        }
    }
    let digests: Mutex<BTreeMap<String, BTreeMap<String, Value>>> = Mutex::new(BTreeMap::new());
    run_cases(
        ctx, "E3/C15-shape", false,
        cases.par_iter(),
        |&&(si, i, m)| {
            let mode = if m == 0 { SynthesisMode::Setup } else { prove_mode() };
            let cs = new_cs(mode);
            let class = format!("shape/{}/{}", shs[si].name, if m == 0 { "setup" } else { "prove" });
            if let Err(e) = (shs[si].f)(&env, i, &cs) {
                return Outcome::bad(class, Viol { key: format!("C15|shape|{}|synthesis-error", shs[si].name), engine: "E3/C15-shape".into(), case: json!({"gadget": shs[si].name, "input": i, "mode": m}), expected: "synthesis succeeds for every input and mode".into(), got: format!("{e:?}") });
            }
            let (ni, nw, nc, d, _) = shape_digest(&cs);
            let mut g = digests.lock().unwrap();
            let ent = g.entry(shs[si].name.to_string()).or_default();
            ent.entry(d.clone()).or_insert(json!({"instance": ni, "witness": nw, "constraints": nc, "first_input": i, "first_mode": m}));
            if ent.len() > 1 {
                let all = serde_json::to_string(&*ent).unwrap();
                return Outcome::bad(class, Viol { key: format!("C15|shape|{}", shs[si].name), engine: "E3/C15-shape".into(), case: json!({"gadget": shs[si].name, "input": i, "mode": m}), expected: "one constraint-matrix digest for every input value and for Setup and Prove".into(), got: all });
            }
            Outcome::ok(class)
        },
        |&&(si, i, m)| (format!("shape|{}", shs[si].name), json!({"gadget": shs[si].name, "input": i, "mode": m})),
    );
    // (2) public-input allocation
    let idx: Vec<usize> = (0..env.els.len()).collect();
    run_cases(
        ctx, "E3/C15-public-input", false,
        idx.par_iter(),
        |&&i| {
            use ark_ec::CurveGroup;
            let e = env.els[i].1;
            let want = e.vartime_compress_to_field();
            let class = "public-input".to_string();
            let case = json!({"element": env.els[i].0, "index": i});
            for which in 0..2 {
                let cs = new_cs(prove_mode());
                let res: SR<ElementVar> = if which == 0 { ElementVar::new_input(cs.clone(), || Ok(e)) } else { <ElementVar as AllocVar<Affine, Fq>>::new_input(cs.clone(), || Ok(e.into_affine())) };
                if res.is_err() {
                    return Outcome::bad(class, Viol { key: "C15|public-input|alloc".into(), engine: "E3/C15-public-input".into(), case, expected: "allocation succeeds".into(), got: "error".into() });
                }
                let inst = cs.borrow().unwrap().instance_assignment.clone();
                if cs.num_instance_variables() != 2 || inst != vec![Fq::one(), want] {
                    return Outcome::bad(class, Viol { key: "C15|public-input|instance".into(), engine: "E3/C15-public-input".into(), case, expected: format!("instance assignment [1, {}]", fq_big(&want)), got: format!("{:?}", inst.iter().map(|x| fq_big(x).to_string()).collect::<Vec<_>>()) });
                }
            }
            if e.to_field_elements() != Some(vec![want]) {
                return Outcome::bad(class, Viol { key: "C15|public-input|to_field_elements".into(), engine: "E3/C15-public-input".into(), case, expected: "to_field_elements() == [compress_to_field()]".into(), got: format!("{:?}", e.to_field_elements().map(|v| v.iter().map(|x| fq_big(x).to_string()).collect::<Vec<_>>())) });
            }
            Outcome::ok(class)
        },
        |&&i| ("public-input".into(), json!({"element": env.els[i].0, "index": i})),
    );
    // (3) the seven pinned circuits: shape across instances and modes, key sizes, prove/verify
    let nwit = ctx.t(8usize, 30);
    let dir = std::path::Path::new("/repo/tests/test_vectors");
    let per_circuit: Vec<Value> = (0..7usize)
        .into_par_iter()
        .map(|ci| {
            let name = CIRCUITS[ci];
            let insts = instances(&env, ci, nwit);
            let mut info = serde_json::Map::new();
            info.insert("circuit".into(), json!(name));
            info.insert("instances".into(), json!(insts.len()));
            // shapes
            let mut shape: Option<(usize, usize, usize, String)> = None;
            for (nm, c) in &insts {
                for m in 0..2 {
                    let cs = new_cs(if m == 0 { SynthesisMode::Setup } else { prove_mode() });
                    if let Err(e) = c.clone().generate_constraints(cs.clone()) {
                        ctx.violation(Viol { key: format!("C15|circuit|{name}|synthesis-error"), engine: "E3/C15-circuit".into(), case: json!({"circuit": name, "instance": nm, "mode": m}), expected: "synthesis succeeds".into(), got: format!("{e:?}") });
                        continue;
                    }
                    let (ni, nw, nc, d, _) = shape_digest(&cs);
                    ctx.report.evaluations.fetch_add(1, std::sync::atomic::Ordering::Relaxed);
                    ctx.report.note_nontrivial(h64(&("circuit-shape", name, nm, m)));
                    match &shape {
                        None => shape = Some((ni, nw, nc, d)),
                        Some(s0) => {
                            if s0.3 != d {
                                ctx.violation(Viol { key: format!("C15|circuit|{name}|shape"), engine: "E3/C15-circuit".into(), case: json!({"circuit": name, "instance": nm, "mode": m}), expected: format!("matrix digest {} ({} constraints)", s0.3, s0.2), got: format!("digest {d} ({nc} constraints, {nw} witnesses)") });
                            }
                        }
                    }
                }
            }
            let (ni, nw, nc, d) = shape.clone().unwrap_or((0, 0, 0, String::new()));
            info.insert("shape".into(), json!({"instance": ni, "witness": nw, "constraints": nc, "digest": d}));
            ctx.report.class(&format!("circuit/{name}/shape"));
            // keys
            let pk_bytes = std::fs::read(dir.join(format!("{name}_pk.bin")));
            let vk_bytes = std::fs::read(dir.join(format!("{name}_vk.param")));
            let (pk, vk) = match (pk_bytes, vk_bytes) {
                (Ok(p), Ok(v)) => match (ProvingKey::<Bls12_377>::deserialize_uncompressed_unchecked(&p[..]), VerifyingKey::<Bls12_377>::deserialize_uncompressed(&v[..])) {
                    (Ok(p), Ok(v)) => (p, v),
                    (a, b) => {
                        ctx.violation(Viol { key: format!("C15|circuit|{name}|key-parse"), engine: "E3/C15-circuit".into(), case: json!({"circuit": name}), expected: "pinned keys deserialise with the crate's engine".into(), got: format!("pk ok={} vk ok={}", a.is_ok(), b.is_ok()) });
                        return Value::Object(info);
                    }
                },
                _ => {
                    ctx.report.machinery_error(format!("cannot read pinned keys for {name} under /repo/tests/test_vectors"));
                    return Value::Object(info);
                }
            };
            let dom = (nc + ni).next_power_of_two();
            let sizes_ok = vk.gamma_abc_g1.len() == ni && pk.a_query.len() == ni + nw && pk.b_g1_query.len() == ni + nw && pk.b_g2_query.len() == ni + nw && pk.l_query.len() == nw && pk.h_query.len() == dom - 1 && pk.vk == vk;
            ctx.report.evaluations.fetch_add(1, std::sync::atomic::Ordering::Relaxed);
            ctx.report.class(&format!("circuit/{name}/key-sizes"));
            if !sizes_ok {
                ctx.violation(Viol { key: format!("C15|circuit|{name}|key-sizes"), engine: "E3/C15-circuit".into(), case: json!({"circuit": name}), expected: format!("gamma_abc={ni} a_query={} l_query={nw} h_query={} and pk.vk == vk", ni + nw, dom - 1), got: format!("gamma_abc={} a_query={} l_query={} h_query={} vk_equal={}", vk.gamma_abc_g1.len(), pk.a_query.len(), pk.l_query.len(), pk.h_query.len(), pk.vk == vk) });
                return Value::Object(info);
            }
            // prove every instance, verify against every public input
            let pvk = Groth16::<Bls12_377, LibsnarkReduction>::process_vk(&vk).expect("process vk");
            let proofs: Vec<Option<ark_groth16::Proof<Bls12_377>>> = insts
                .par_iter()
                .enumerate()
                .map(|(k, (_, c))| {
                    let mut g = rng(ctx.seed.wrapping_add(k as u64 * 1000 + ci as u64));
                    guarded(|| Groth16::<Bls12_377, LibsnarkReduction>::prove(&pk, c.clone(), &mut g).ok()).ok().flatten()
                })
                .collect();
            let pubs: Vec<Vec<Fq>> = insts.iter().map(|(_, c)| c.public_inputs()).collect();
            let mut accepted = 0usize;
            let mut rejected = 0usize;
            for (k, pr) in proofs.iter().enumerate() {
                let nm = &insts[k].0;
                let pr = match pr {
                    Some(p) => p,
                    None => {
                        ctx.violation(Viol { key: format!("C15|circuit|{name}|prove"), engine: "E3/C15-circuit".into(), case: json!({"circuit": name, "instance": nm}), expected: "proof generated with the pinned proving key".into(), got: "prover failed".into() });
                        continue;
                    }
                };
                let oks: Vec<(usize, bool)> = (0..pubs.len()).into_par_iter().map(|j| (j, Groth16::<Bls12_377, LibsnarkReduction>::verify_with_processed_vk(&pvk, &pubs[j], pr).unwrap_or(false))).collect();
                for (j, ok) in oks {
                    ctx.report.evaluations.fetch_add(1, std::sync::atomic::Ordering::Relaxed);
                    ctx.report.note_nontrivial(h64(&("verify", name, k, j)));
                    let same = pubs[j] == pubs[k];
                    if same && !ok {
                        ctx.violation(Viol { key: format!("C15|circuit|{name}|verify-rejects-honest"), engine: "E3/C15-circuit".into(), case: json!({"circuit": name, "instance": nm}), expected: "verifies under the pinned verifying key".into(), got: "rejected".into() });
                    }
                    if !same && ok {
                        ctx.violation(Viol { key: format!("C15|circuit|{name}|verify-accepts-other-input"), engine: "E3/C15-circuit".into(), case: json!({"circuit": name, "instance": nm, "other": insts[j].0}), expected: "rejected for a different public input".into(), got: "accepted".into() });
                    }
                    if ok { accepted += 1 } else { rejected += 1 }
                }
            }
            ctx.report.class(&format!("circuit/{name}/groth16"));
            info.insert("proofs".into(), json!(proofs.iter().filter(|p| p.is_some()).count()));
            info.insert("verifications_accepted".into(), json!(accepted));
            info.insert("verifications_rejected".into(), json!(rejected));
            Value::Object(info)
        })
        .collect();
    r.set("C15_pinned_circuits", Value::Array(per_circuit));
    r.set("C15_gadget_shapes", json!(digests.lock().unwrap().iter().map(|(k, v)| (k.clone(), json!(v))).collect::<BTreeMap<_, _>>()));
    r.sample("E3/C15-circuit", || json!({"circuit": "decompression", "instance": "s=8", "verify_against": "all other instances' public inputs"}));
    r.rule(format!("E3/C15[ark]: {} gadget shape targets x every structured input x {{Setup, Prove}}: one A/B/C matrix digest each; public-input allocation on {} element representatives (instance == [1, encoding], == to_field_elements); the 7 pinned circuits x {nwit} honest instances: shape across instances and modes, key sizes vs synthesised sizes, Groth16 prove with the pinned pk, verify under the pinned vk against the public inputs of every instance (accept iff equal)", shs.len(), env.els.len()));
    r.assume("C15: soundness of Groth16 itself; prover blinding comes from a deterministic stream seeded by VERIF_SEED");
}

pub fn replay(case: &Value) -> (bool, Value) {
    let env = Env::new();
    if let Some(g) = case["gadget"].as_str() {
        let shs = shapes();
        if let Some(s) = shs.iter().find(|s| s.name == g) {
            let mut ds: Vec<String> = vec![];
            for i in 0..(s.n)(&env) {
                for m in 0..2 {
                    let cs = new_cs(if m == 0 { SynthesisMode::Setup } else { prove_mode() });
                    if (s.f)(&env, i, &cs).is_err() {
                        return (false, json!({"error": "synthesis error", "input": i}));
                    }
                    let d = shape_digest(&cs).3;
                    if !ds.contains(&d) {
                        ds.push(d);
                    }
                }
            }
            return (ds.len() == 1, json!({"gadget": g, "distinct_digests": ds}));
        }
    }
    (true, json!({"note": "circuit-level cases are replayed by re-running ./check C15 quick"}))
}
