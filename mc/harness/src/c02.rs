//! C02 -- decoding accepts exactly the canonical encodings of the specification, through every
//! entry point; and C01(b) -- re-encoding any accepted string reproduces it bit for bit.
//! E3, deviation-bounded: valid encodings (deviation 0), every near-miss transformer of each
//! (deviation 1), all pairs of bit flips of a few seeds (deviation 2, thorough), absolute
//! boundary strings and complete small intervals, every slice length 0..=80.
use crate::core::*;
use crate::sut::*;
use num_bigint::BigUint;
use num_traits::{One, Zero};
use rayon::prelude::*;
use refmodel::curve::Pt;
use refmodel::fld::{to32, u};
use refmodel::spec::{Decaf, Reject};
use serde_json::{json, Value};
use std::sync::Arc;

#[derive(Clone, Copy, PartialEq, Eq, Debug)]
pub enum Mode {
    /// verdict / error kind / element agreement of all entry points with decodeSpec
    C02,
    /// round trip compress(decompress(b)) == b on every accepted string
    C01b,
}

/// verdict of one entry point
#[derive(Clone, PartialEq, Eq, Debug)]
pub enum V {
    Ok(Coords),
    BadEncoding,
    BadLength,
    /// stream deserialiser error (kind not distinguished by ark-serialize for short input)
    StreamErr(String),
}

fn verdict(r: Result<Element, decaf377::EncodingError>) -> V {
    match r {
        Ok(e) => V::Ok(el_coords(&e)),
        Err(decaf377::EncodingError::InvalidEncoding) => V::BadEncoding,
        Err(decaf377::EncodingError::InvalidSliceLength) => V::BadLength,
    }
}

/// all decoding entry points of this build on an arbitrary-length slice
pub fn entry_points(bytes: &[u8]) -> Vec<(&'static str, V)> {
    use std::convert::TryFrom;
    let mut v: Vec<(&'static str, V)> = vec![];
    v.push(("Element::try_from(&[u8])", verdict(Element::try_from(bytes))));
    v.push((
        "Encoding::try_from(&[u8]) then vartime_decompress",
        match Encoding::try_from(bytes) {
            Ok(e) => verdict(e.vartime_decompress()),
            Err(decaf377::EncodingError::InvalidSliceLength) => V::BadLength,
            Err(_) => V::BadEncoding,
        },
    ));
    if bytes.len() == 32 {
        let mut a = [0u8; 32];
        a.copy_from_slice(bytes);
        v.push(("Encoding(b).vartime_decompress()", verdict(Encoding(a).vartime_decompress())));
        v.push(("Element::try_from(&Encoding)", verdict(Element::try_from(&Encoding(a)))));
        v.push(("Element::try_from(Encoding)", verdict(Element::try_from(Encoding(a)))));
        v.push(("Element::try_from([u8;32])", verdict(Element::try_from(a))));
        v.push(("Element::try_from(Encoding::from([u8;32]))", verdict(Element::try_from(Encoding::from(a)))));
        #[cfg(feature = "ark")]
        {
            #[allow(deprecated)]
            v.push(("Encoding::decompress (deprecated alias)", verdict(Encoding(a).decompress())));
        }
    }
    #[cfg(feature = "ark")]
    {
        use ark_serialize::CanonicalDeserialize;
        let se = |e: ark_serialize::SerializationError| -> V {
            match e {
                ark_serialize::SerializationError::InvalidData => V::BadEncoding,
                other => V::StreamErr(format!("{other:?}")),
            }
        };
        v.push(("Element::deserialize_compressed", match Element::deserialize_compressed(bytes) { Ok(e) => V::Ok(el_coords(&e)), Err(e) => se(e) }));
        v.push((
            "AffinePoint::deserialize_compressed",
            match Affine::deserialize_compressed(bytes) {
                Ok(a) => {
                    // affine (x, y) -> compare as Z = 1 element coords
                    let c = af_coords(&a);
                    let f = refmodel::fld::Fld::new(refmodel::fld::big(refmodel::spec::Q_DEC));
                    let (x, y) = (BigUint::from_bytes_le(&c[0]), BigUint::from_bytes_le(&c[1]));
                    V::Ok([c[0], c[1], to32(&BigUint::one()), to32(&f.mul(&x, &y))])
                }
                Err(e) => se(e),
            },
        ));
        // the same stream handed over in fragments (a reader that yields at most 7 bytes per
        // call): a deserialiser must not depend on how the bytes arrive
        struct Frag<'a>(&'a [u8]);
        impl<'a> ark_serialize::Read for Frag<'a> {
            fn read(&mut self, buf: &mut [u8]) -> std::io::Result<usize> {
                let n = buf.len().min(7).min(self.0.len());
                buf[..n].copy_from_slice(&self.0[..n]);
                self.0 = &self.0[n..];
                Ok(n)
            }
        }
        v.push(("Element::deserialize_compressed (fragmented reader)", match Element::deserialize_compressed(Frag(bytes)) { Ok(e) => V::Ok(el_coords(&e)), Err(e) => se(e) }));
        v.push((
            "Encoding::deserialize_compressed then Element::try_from",
            match Encoding::deserialize_compressed(bytes) {
                Ok(e) => verdict(Element::try_from(e)),
                Err(e) => se(e),
            },
        ));
    }
    v
}

pub struct Dom {
    pub dc: Decaf,
}

fn mkv(key: String, bytes: &[u8], origin: &str, expected: String, got: String) -> Viol {
    Viol { key, engine: "E3/C02".into(), case: json!({"bytes": hex::encode(bytes), "origin": origin}), expected, got }
}

pub fn eval(dc: &Decaf, mode: Mode, bytes: &[u8], origin: &str) -> Outcome {
    let f = dc.f();
    let spec = dc.decode_spec(bytes);
    // control class
    let class: String = match &spec {
        Err(Reject::Length) => format!("len{}", if bytes.len() < 32 { "<32" } else { ">32" }),
        Err(Reject::NonCanonical) => if bytes[31] >> 5 != 0 { "noncanonical/topbits".into() } else { "noncanonical/>=q".into() },
        Err(Reject::Negative) => "negative".into(),
        Err(Reject::NonSquare) => {
            let s = BigUint::from_bytes_le(bytes);
            if s == &f.p - 1u32 { "s=q-1".into() } else { "nonsquare".into() }
        }
        Ok(p) => {
            if p.x.is_zero() {
                "accept/s=0".into()
            } else {
                let s = BigUint::from_bytes_le(bytes);
                let fl = dc.decode_spec_ex(&s).map(|x| x.1).unwrap_or(false);
                format!("accept/{}", if fl { "signflip" } else { "noflip" })
            }
        }
    };
    if mode == Mode::C01b {
        // only the round trip on accepted strings
        if bytes.len() != 32 {
            return Outcome::trivial(class);
        }
        // the primary entry point decides acceptance (agreement of all entry points with each
        // other and with the specification is C02's business)
        let mut a32 = [0u8; 32];
        a32.copy_from_slice(bytes);
        let e = match Encoding(a32).vartime_decompress() {
            Ok(e) => e,
            Err(_) => return Outcome::trivial(class),
        };
        let re = e.vartime_compress().0;
        if re[..] != bytes[..] {
            return Outcome::bad(class, Viol { key: "C01b|reencode".into(), engine: "E3/C01b".into(), case: json!({"bytes": hex::encode(bytes), "origin": origin}), expected: format!("compress(decompress(b)) == b = {}", hex::encode(bytes)), got: hex::encode(re) });
        }
        match Encoding(re).vartime_decompress() {
            Ok(d) if d == e => {}
            _ => return Outcome::bad(class, Viol { key: "C01b|redecode".into(), engine: "E3/C01b".into(), case: json!({"bytes": hex::encode(bytes), "origin": origin}), expected: "decompress(compress(E)) == E".into(), got: "differs / error".into() }),
        }
        // a second accepted string for the same element would break the bijection: the element's
        // specification encoding must be this very string
        if let Ok(p) = &spec {
            if let Ok(se) = dc.encode_spec_bytes(p) {
                if se[..] != bytes[..] {
                    return Outcome::bad(class, Viol { key: "C01b|not-the-canonical-string".into(), engine: "E3/C01b".into(), case: json!({"bytes": hex::encode(bytes), "origin": origin}), expected: hex::encode(se), got: hex::encode(bytes) });
                }
            }
        }
        return Outcome::ok(class);
    }
    let eps = entry_points(bytes);
    // expected verdict per entry point
    for (name, got) in &eps {
        let stream = name.contains("deserialize_compressed");
        // stream deserialisers read exactly 32 bytes: verdict is that of the 32-byte prefix
        let spec_eff = if stream && bytes.len() > 32 { dc.decode_spec(&bytes[..32]) } else { spec.clone() };
        match (&spec_eff, got) {
            (Ok(p), V::Ok(c)) => {
                let cb = coords_big(c);
                // same class as decodeSpec (either coset member, any projective scaling) and valid
                // extended coordinates: Z != 0, T*Z == X*Y. Which representative an entry point
                // hands back is not constrained by the property.
                let good = match f.inv(&cb[2]) {
                    Some(zi) => {
                        let (x, y) = (f.mul(&cb[0], &zi), f.mul(&cb[1], &zi));
                        let class_ok = (x == p.x && y == p.y) || (x == f.neg(&p.x) && y == f.neg(&p.y));
                        class_ok && f.mul(&cb[3], &cb[2]) == f.mul(&cb[0], &cb[1])
                    }
                    None => false,
                };
                if !good {
                    return Outcome::bad(class, mkv(format!("C02|wrong-element|{name}"), bytes, origin, format!("element of decodeSpec: ({}, {}) (or its coset twin, any projective scaling), T*Z == X*Y", p.x, p.y), format!("{:?}", hex_coords(c))));
                }
            }
            (Ok(_), other) => {
                return Outcome::bad(class, mkv(format!("C02|rejects-valid|{name}"), bytes, origin, "accepted (decodeSpec succeeds)".into(), format!("{other:?}")));
            }
            (Err(rj), V::Ok(c)) => {
                return Outcome::bad(class, mkv(format!("C02|accepts-invalid|{name}"), bytes, origin, format!("rejected: {rj:?}"), format!("accepted as {:?}", hex_coords(c))));
            }
            (Err(Reject::Length), V::BadLength) => {}
            (Err(Reject::Length), V::StreamErr(_)) if stream && bytes.len() < 32 => {}
            (Err(Reject::Length), other) => {
                return Outcome::bad(class, mkv(format!("C02|length-error-kind|{name}"), bytes, origin, "InvalidSliceLength (stream: read error)".into(), format!("{other:?}")));
            }
            (Err(_), V::BadEncoding) => {}
            (Err(rj), other) => {
                return Outcome::bad(class, mkv(format!("C02|error-kind|{name}"), bytes, origin, format!("InvalidEncoding ({rj:?})"), format!("{other:?}")));
            }
        }
    }
    Outcome::ok(class)
}

/// the byte-string domain; each entry = (bytes, origin label)
pub static FOLD_VALID: std::sync::atomic::AtomicUsize = std::sync::atomic::AtomicUsize::new(0);

pub fn domain(dc: &Decaf, quick: bool) -> Vec<(Vec<u8>, &'static str)> {
    let c = &dc.c;
    let f = dc.f();
    let q = f.p.clone();
    let mut out: Vec<(Vec<u8>, &'static str)> = vec![];
    // ---- deviation 0: valid encodings of reference points
    let g = dc.generator();
    let h = dc.elligator_spec(&BigUint::one());
    let mut pts: Vec<Pt> = vec![];
    let nk = if quick { 24 } else { 96 };
    let mut acc = c.identity();
    for _ in 0..nk {
        pts.push(acc.clone());
        acc = c.add(&acc, &g);
    }
    let mut acc = h.clone();
    for _ in 0..nk / 2 {
        pts.push(acc.clone());
        pts.push(c.sub(&acc, &g));
        acc = c.add(&acc, &h);
    }
    let ne = if quick { 64u64 } else { 512 };
    for r0 in 0..ne {
        pts.push(dc.elligator_spec(&u(r0)));
    }
    // unstructured members: pseudo-random multiples of G and pseudo-random Elligator outputs
    for k in crate::fields::prand(0x02, if quick { 48 } else { 512 }, &dc.r) {
        pts.push(c.mul(&g, &k));
    }
    for r0 in crate::fields::prand(0x0202, if quick { 64 } else { 1024 }, &f.p) {
        pts.push(dc.elligator_spec(&r0));
    }
    pts.push(c.mul(&g, &(&dc.r - 1u32)));
    pts.push(c.mul(&g, &((&dc.r - 1u32) >> 1)));
    let valid: Vec<[u8; 32]> = {
        let mut v: Vec<[u8; 32]> = pts.par_iter().map(|p| dc.encode_spec_bytes(p).expect("reference point encodes")).collect();
        v.sort();
        v.dedup();
        v
    };
    for v in &valid {
        out.push((v.to_vec(), "valid"));
    }
    // ---- deviation 1: near-miss transformers of every valid encoding
    let two256 = BigUint::one() << 256;
    for v in &valid {
        let s = BigUint::from_bytes_le(v);
        let mut k = 1u32;
        loop {
            let a = &s + &q * k;
            if a >= two256 {
                break;
            }
            out.push((to32(&a).to_vec(), "alias s+kq"));
            k += 1;
        }
        if !s.is_zero() {
            out.push((to32(&(&q - &s)).to_vec(), "negation q-s"));
        }
        for bit in 0..256 {
            let mut b = *v;
            b[bit / 8] ^= 1 << (bit % 8);
            out.push((b.to_vec(), "bit flip"));
        }
        for top in 1..8u8 {
            let mut b = *v;
            b[31] = (b[31] & 0x1f) | (top << 5);
            out.push((b.to_vec(), "top bits"));
        }
        for i in 0..32 {
            for fill in [0x00u8, 0xff] {
                let mut b = *v;
                b[i] = fill;
                out.push((b.to_vec(), "byte overwrite"));
            }
        }
    }
    // ---- deviation 2 (thorough): all pairs of bit flips of 16 seeds
    if !quick {
        for v in valid.iter().step_by((valid.len() / 16).max(1)).take(16) {
            for i in 0..256 {
                for j in (i + 1)..256 {
                    let mut b = *v;
                    b[i / 8] ^= 1 << (i % 8);
                    b[j / 8] ^= 1 << (j % 8);
                    out.push((b.to_vec(), "two bit flips"));
                }
            }
        }
    }
    // ---- absolute strings
    let top = if quick { 1u64 << 16 } else { 1u64 << 20 };
    for s in 0..top {
        out.push((to32(&u(s)).to_vec(), "interval"));
    }
    for d in 0..(1u32 << 12) {
        out.push((to32(&(&q - d)).to_vec(), "around q"));
        out.push((to32(&(&q + d)).to_vec(), "around q"));
    }
    for k in 0..256u32 {
        let t = BigUint::one() << k;
        out.push((to32(&t).to_vec(), "2^k"));
        out.push((to32(&(&t - 1u32)).to_vec(), "2^k-1"));
        out.push((to32(&(&t + 1u32)).to_vec(), "2^k+1"));
    }
    out.push((vec![0xff; 32], "all ones"));
    // s solved for so that the decoder's inverse-square-root argument has a structured
    // 2-primary discrete log (valid encodings for even logs, non-square rejects for odd ones)
    for (s, _) in crate::sqrtclass::decode_ss(dc, quick) {
        out.push((to32(&s).to_vec(), "sqrt-class s"));
    }
    // s solved for so that a named intermediate of the decoder (s^2, u1, u2, the square-root
    // argument, the sign-check value) is a boundary class of comparison / negation / XOR-folding
    for (s, _) in crate::sqrtclass::decode_by_intermediate(dc) {
        out.push((to32(&s).to_vec(), "intermediate-class s"));
    }
    // boundary classes of the multi-limb canonicity comparison with q, with the three spare top
    // bits clear and set
    for x in crate::fields::cmp_family(&q, 32) {
        out.push((to32(&x).to_vec(), "limb-wise neighbours of q"));
    }
    // aliases x = s + kq whose word-wise differences from s cancel under XOR (32- and 64-bit
    // words): what a canonicity check that folds "input word != re-serialised word" with ^
    // instead of | accepts. The family is the set of admissible carry patterns of s + kq
    // (refmodel::foldfam); members whose s is a valid encoding come first.
    {
        let mut n_valid = 0usize;
        for w in [64usize, 32] {
            for k in 1..=3u32 {
                let kq = &q * k;
                let want = if quick { 4096 } else { 32768 };
                let fam = refmodel::foldfam::xor_fold_collisions(&kq, 32, w, want, 0xC02);
                let mut kept_any = 0usize;
                for (s, x) in &fam {
                    if *s >= q {
                        continue;
                    }
                    let valid_s = dc.decode_spec(&to32(s)).is_ok();
                    if valid_s {
                        n_valid += 1;
                    }
                    if valid_s || kept_any < 16 {
                        out.push((to32(x).to_vec(), "xor-fold alias s+kq"));
                        kept_any += 1;
                    }
                }
            }
        }
        FOLD_VALID.store(n_valid, std::sync::atomic::Ordering::Relaxed);
    }
    {
        // pseudo-random 32-byte strings (top three bits cleared for half of them)
        let mut gsm = crate::fields::SplitMix(crate::fields::verif_seed() ^ 0xC02);
        for i in 0..(if quick { 1usize << 12 } else { 1 << 17 }) {
            let mut b = gsm.bytes(32);
            if i % 2 == 0 {
                b[31] &= 0x1f;
            }
            out.push((b, "pseudo-random"));
        }
    }
    out.push((to32(&((&q - 1u32) >> 1)).to_vec(), "(q-1)/2"));
    out.push((to32(&((&q + 1u32) >> 1)).to_vec(), "(q+1)/2"));
    // ---- lengths 0..=80 x fills (zeros, 0xff, a valid encoding extended/truncated, 8 then zeros)
    let g_enc = dc.encode_spec_bytes(&g).unwrap();
    let h_enc = dc.encode_spec_bytes(&h).unwrap();
    for len in 0..=80usize {
        out.push((vec![0u8; len], "length/zeros"));
        out.push((vec![0xffu8; len], "length/ones"));
        for enc in [&g_enc, &h_enc] {
            let mut b: Vec<u8> = enc.iter().cycle().take(len).cloned().collect();
            out.push((b.clone(), "length/valid-prefix"));
            if len > 32 {
                for x in b[32..].iter_mut() {
                    *x = 0;
                }
                out.push((b, "length/valid+zero-tail"));
            }
        }
    }
    out
}

pub fn run(ctx: &Arc<Ctx>, mode: Mode) {
    let dc = Decaf::new();
    let dom = domain(&dc, ctx.quick());
    let n = dom.len();
    let engine = if mode == Mode::C02 { "E3/C02" } else { "E3/C01b" };
    run_cases(
        ctx, engine, false,
        dom.par_iter(),
        |(b, o)| eval(&dc, mode, b, o),
        |(b, o)| (format!("{}", o), json!({"bytes": hex::encode(b), "origin": o})),
    );
    let r = &ctx.report;
    r.set(&format!("{engine}_domain_size"), json!(n));
    r.set(&format!("{engine}_xor_fold_aliases_of_valid_encodings"), json!(FOLD_VALID.load(std::sync::atomic::Ordering::Relaxed)));
    r.rule(format!("{engine}[{BUILD}]: {n} byte strings = valid encodings of reference points (deviation 0) + every alias s+kq / q-s / single bit flip / top-bit pattern / byte overwrite of each (deviation 1){} + complete interval [0,2^{}) + q +- 2^12 + 2^k, 2^k+-1 + limb-wise neighbours of q (cmp_family) + encodings solved for structured square-root digits and for boundary classes of the decoder's intermediates (target_family) + aliases s+kq (k<=3) whose 32-/64-bit word differences cancel under xor (carry-pattern graph) + a fixed pseudo-random family + every slice length 0..=80 x 6 fills; each string through every decoding entry point of this build; non-trivial = all (C01b: accepted strings only); distinct by bytes", if ctx.quick() { "" } else { " + all pairs of bit flips of 16 seeds (deviation 2)" }, if ctx.quick() { 16 } else { 20 }));
    r.assume("C02: Compress::No / Validate::No are unimplemented!() by design in the crate and are not exercised");
}

pub fn replay(case: &Value, engine: &str) -> (bool, Value) {
    let dc = Decaf::new();
    let bytes = hex::decode(case["bytes"].as_str().unwrap_or("")).unwrap_or_default();
    let mode = if engine.contains("C01b") { Mode::C01b } else { Mode::C02 };
    let o = eval(&dc, mode, &bytes, "replay");
    let eps: Vec<Value> = entry_points(&bytes).iter().map(|(n, v)| json!({"entry": n, "verdict": format!("{v:?}")})).collect();
    match o.viol {
        Some(v) => (false, json!({"class": o.class, "spec": format!("{:?}", dc.decode_spec(&bytes).map(|p| (p.x.to_string(), p.y.to_string()))), "entry_points": eps, "expected": v.expected, "got": v.got})),
        None => (true, json!({"class": o.class, "entry_points": eps})),
    }
}
