//! Reference model for the decaf377 verification harness.
//! Naive big-integer arithmetic only; shares no code with decaf377 or ark-ff.
pub mod consts;
pub mod curve;
pub mod divstep;
pub mod fld;
pub mod foldfam;
pub mod group;
pub mod poly;
pub mod selfcheck;
pub mod spec;

pub use num_bigint::BigUint;
pub use num_traits::{One, Zero};
