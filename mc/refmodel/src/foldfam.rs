//! Fold-collision family for canonicity checks of the form "parse, reduce, re-serialise, compare
//! word by word". A correct comparison ORs the word differences; one that folds them with XOR
//! accepts a non-canonical x = s + k (k a multiple of the modulus) exactly when
//!
//!     XOR_i ( x_i ^ s_i ) = 0          (x_i, s_i the w-bit words of x and s).
//!
//! With c_i[j] the carry into bit j of word i of the addition s + k, the difference word is
//! x_i ^ s_i = k_i ^ c_i, so the condition only constrains the CARRY PATTERN: at every bit
//! position j the parity of (c_i[j] ^ k_i[j]) over the words i must be even. The carry recurrence
//! c[j+1] = maj(s[j], k[j], c[j]) leaves c[j+1] free (= s[j]) where c[j] != k[j] and forces it
//! (= k[j], s[j] arbitrary) where c[j] == k[j]. So the admissible carry patterns are the paths of a
//! layered graph with 2^n nodes per layer (n = number of words), w layers, which is searched
//! exhaustively (backward reachability), and members are read off along viable paths, the free
//! choices being made by a fixed pseudo-random stream. Everything is deterministic.
use num_bigint::BigUint;
use num_traits::Zero;

struct Sm(u64);
impl Sm {
    fn next(&mut self) -> u64 {
        self.0 = self.0.wrapping_add(0x9E37_79B9_7F4A_7C15);
        let mut z = self.0;
        z = (z ^ (z >> 30)).wrapping_mul(0xBF58_476D_1CE4_E5B9);
        z = (z ^ (z >> 27)).wrapping_mul(0x94D0_49BB_1331_11EB);
        z ^ (z >> 31)
    }
}

/// Up to `want` values s (not filtered for s < modulus; the caller filters) such that the
/// w-bit words of s and of x = s + k satisfy XOR_i (x_i ^ s_i) = 0 and x < 2^(8*nbytes).
/// Returns (s, x) pairs. n = 8*nbytes/w must be <= 12.
pub fn xor_fold_collisions(k: &BigUint, nbytes: usize, w: usize, want: usize, seed: u64) -> Vec<(BigUint, BigUint)> {
    let n = nbytes * 8 / w;
    assert!(n <= 12 && n * w == nbytes * 8);
    if k.bits() as usize > nbytes * 8 {
        return vec![];
    }
    let kbit = |i: usize, j: usize| -> u32 { k.bit((i * w + j) as u64) as u32 };
    // kcol[j] = bit vector over words of k's bit j
    let kcol: Vec<u32> = (0..w).map(|j| (0..n).fold(0u32, |acc, i| acc | (kbit(i, j) << i))).collect();
    let nstates = 1usize << n;
    let even = |v: u32| v.count_ones() % 2 == 0;
    // successors of carry vector c at layer j: word i forced to k_i[j] if c_i == k_i[j], else free
    let succ = |c: u32, j: usize| -> (u32, u32) {
        let forced_mask = !(c ^ kcol[j]) & ((1u32 << n) - 1); // words where c == k
        let forced_val = kcol[j] & forced_mask;
        (forced_mask, forced_val)
    };
    let mut out: Vec<(BigUint, BigUint)> = vec![];
    let mut rng = Sm(seed ^ ((w as u64) << 32) ^ nbytes as u64);
    // guess the carries between words: cin vector (bit i = carry into word i), bit 0 = 0;
    // the final carry vector at layer w must equal cin >> 1 (carry out of word i = carry into word i+1),
    // and the carry out of the top word must be 0.
    let mut guesses: Vec<u32> = (0..nstates as u32).filter(|g| g & 1 == 0).collect();
    // deterministic shuffle
    for i in (1..guesses.len()).rev() {
        let j = (rng.next() % (i as u64 + 1)) as usize;
        guesses.swap(i, j);
    }
    for cin in guesses {
        if out.len() >= want {
            break;
        }
        let target = cin >> 1; // required carry-out vector (top word: 0)
        // parity admissibility of a carry vector at layer j (j < w)
        let ok = |c: u32, j: usize| even(c ^ kcol[j]);
        if !ok(cin, 0) {
            continue;
        }
        // backward reachability: viable[j][c] = from carry vector c at layer j the target is reachable
        let mut viable = vec![vec![false; nstates]; w + 1];
        viable[w][target as usize] = true;
        for j in (0..w).rev() {
            for c in 0..nstates as u32 {
                if !ok(c, j) {
                    continue;
                }
                let (fm, fv) = succ(c, j);
                let free = !fm & ((1u32 << n) - 1);
                // enumerate subsets of the free mask
                let mut sub = free;
                loop {
                    let nc = fv | sub;
                    if viable[j + 1][nc as usize] {
                        viable[j][c as usize] = true;
                        break;
                    }
                    if sub == 0 {
                        break;
                    }
                    sub = (sub - 1) & free;
                }
            }
        }
        if !viable[0][cin as usize] {
            continue;
        }
        // read off members along viable paths
        let per_guess = (want / 4).max(4);
        for _ in 0..per_guess {
            let mut c = cin;
            let mut s = BigUint::zero();
            for j in 0..w {
                let (fm, fv) = succ(c, j);
                let free = !fm & ((1u32 << n) - 1);
                // candidate successors
                let mut cands: Vec<u32> = vec![];
                let mut sub = free;
                loop {
                    let nc = fv | sub;
                    if viable[j + 1][nc as usize] {
                        cands.push(nc);
                    }
                    if sub == 0 {
                        break;
                    }
                    sub = (sub - 1) & free;
                }
                let nc = cands[(rng.next() % cands.len() as u64) as usize];
                // bits of s at position j: free words s_i[j] = nc_i; forced words arbitrary
                let r = rng.next() as u32;
                for i in 0..n {
                    let bit = if (free >> i) & 1 == 1 { (nc >> i) & 1 } else { (r >> i) & 1 };
                    if bit == 1 {
                        s.set_bit((i * w + j) as u64, true);
                    }
                }
                c = nc;
            }
            let x = &s + k;
            if x.bits() as usize <= nbytes * 8 && holds(&s, &x, n, w) {
                out.push((s, x));
            }
        }
    }
    out.sort();
    out.dedup();
    out.truncate(want);
    out
}

/// the defining predicate, evaluated directly (used as a self-check of the construction)
pub fn holds(s: &BigUint, x: &BigUint, n: usize, w: usize) -> bool {
    let mask = (BigUint::from(1u32) << w) - 1u32;
    let mut acc = BigUint::zero();
    for i in 0..n {
        let a = (s >> (i * w)) & &mask;
        let b = (x >> (i * w)) & &mask;
        acc ^= a ^ b;
    }
    acc.is_zero() && s != x
}

#[cfg(test)]
mod tests {
    use super::*;
    #[test]
    fn finds_members() {
        let q = crate::fld::big(crate::spec::Q_DEC);
        for w in [64usize, 32] {
            let v = xor_fold_collisions(&q, 32, w, 16, 1);
            assert!(!v.is_empty(), "w={w}");
            for (s, x) in &v {
                assert!(holds(s, x, 256 / w, w));
                assert_eq!(x, &(s + &q));
            }
        }
    }
}
